#!/bin/sh
# usage: tools/seedall.sh [seed names...]  - applies every seed under /verif/seeded to /repo in turn (which must be
# clean and otherwise idle), runs the quick check that is expected to catch it, and prints one line per seed.
cd /verif
names="$@"
[ -z "$names" ] && names=$(ls seeded)
for n in $names; do
  check=$(python3 -c "
import json
m=json.load(open('seeded/$n/meta.json'))
print(m.get('check') or m['property'])")
  if ! git -C /repo apply --check /verif/seeded/$n/patch.diff 2>/dev/null; then
    echo "$n check=$check: patch no longer applies to the repaired tree"
    continue
  fi
  out=$(tools/seedtest.sh /verif/seeded/$n/patch.diff $check 2>&1)
  rc=$(echo "$out" | grep -o 'exit=[0-9]*' | tail -1)
  first=$(echo "$out" | grep 'violated:' | head -1 | sed 's/model=.*//' | cut -c1-140)
  echo "$n check=$check $rc $first"
done
