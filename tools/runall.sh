#!/bin/sh
# usage: tools/runall.sh [tier] [ids...]  - runs the registered checks one after the other, logs under /tmp/runall
tier="${1:-quick}"; shift
cd /verif
ids="$@"
[ -z "$ids" ] && ids=$(python3 -c "import json;print(' '.join(c['property_id'] for c in json.load(open('MANIFEST.json'))['checks']))")
mkdir -p /tmp/runall
for id in $ids; do
  start=$(date +%s)
  ./check $id $tier > /tmp/runall/$id.out 2> /tmp/runall/$id.err
  rc=$?
  end=$(date +%s)
  echo "$id exit=$rc $((end-start))s $(grep -c '^VIOLATION' /tmp/runall/$id.out) violations; $(grep -h 'native trace validation' /tmp/runall/$id.err | tail -1)"
done
