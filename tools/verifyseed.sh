#!/bin/sh
# usage: tools/verifyseed.sh <seed dir with patch.diff and demo_test.go> <test run regex> [extra package dirs to test...]
# Confirms in a scratch worktree: demo passes without the patch, fails with it, and the
# affected package's own tests still pass with the patch (demo removed).
sd="$1"; shift
wt=$(mktemp -d /tmp/sv-XXXXXX)
rmdir "$wt"
git -C /repo worktree add -q --detach "$wt" HEAD || exit 3
pkgdir=$(head -1 "$sd/demo_test.go" | sed -E 's#^// *[Pp]lace( this file)? in: *##' | awk '{print $1}' | sed 's#/*$##')
cp "$sd/demo_test.go" "$wt/$pkgdir/zz_demo_test.go"
cd "$wt"
echo "--- demo on unchanged tree ($pkgdir)"
go test -mod=mod -vet=off -count=1 -timeout 60m -run 'Test(Seed)?C[0-9][0-9](Seed|Demo)?[AB]' "./$pkgdir/" 2>&1 | tail -3
git apply "$sd/patch.diff" || { echo "PATCH DOES NOT APPLY"; }
echo "--- demo with patch"
go test -mod=mod -vet=off -count=1 -timeout 60m -run 'Test(Seed)?C[0-9][0-9](Seed|Demo)?[AB]' "./$pkgdir/" 2>&1 | grep -E "^(--- FAIL|FAIL|ok|PASS)" | head -5
rm "$wt/$pkgdir/zz_demo_test.go"
for p in "$@"; do
  echo "--- existing tests of $p with patch"
  go test -mod=mod -vet=off -count=1 "./$p/" 2>&1 | tail -2
done
cd /
git -C /repo worktree remove --force "$wt"
