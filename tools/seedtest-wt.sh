#!/bin/sh
# usage: tools/seedtest-wt.sh <patch.diff> <check id> [tier]
# Like seedtest.sh, but applies the seeded change to a scratch worktree of /repo's HEAD (/tmp/wt-mut) and
# points the check at it with -repo, so that /repo itself stays untouched (usable while other checks run).
patch="$1"; id="$2"; tier="${3:-quick}"
wt=/tmp/wt-mut
cd /verif
[ -d $wt ] || git -C /repo worktree add -q --detach $wt HEAD || exit 3
git -C $wt checkout -q -- . && git -C $wt checkout -q --detach "$(git -C /repo rev-parse HEAD)" || exit 3
git -C $wt apply "$patch" || { echo "patch does not apply"; exit 3; }
PATH=/opt/veriftools/go1.26.8/bin:$PATH GOTOOLCHAIN=local GOFLAGS=-mod=mod GOPROXY=off \
  ${GOSYM:-bin/gosym} -repo $wt -tier $tier -evidence /tmp/seedtest-wt-evidence.json checks/$id.json > /tmp/seedtest.out 2> /tmp/seedtest.err
rc=$?
git -C $wt checkout -q -- .
grep -E "^VIOLATION|^KNOWN" /tmp/seedtest.out | cut -c1-200
grep -E "violated:|INCONCLUSIVE|inconclusive|vacuous|ENCODING|discharged on" /tmp/seedtest.err | head -6
echo "exit=$rc"
exit $rc
