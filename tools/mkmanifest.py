#!/usr/bin/env python3
"""Regenerates /verif/MANIFEST.json from the table below (claimed checks) and properties.jsonl."""
import json, os
here = os.path.dirname(os.path.dirname(os.path.abspath(__file__)))
props = [json.loads(l) for l in open(os.path.join(here, 'properties.jsonl'))]
TECH = "bounded symbolic execution of the real Go functions (go/ssa -> own symbolic interpreter), every branch and assertion decided by z3 over bit-vector terms; counterexamples replayed natively"
claimed = {
 'C03': dict(text="Bounded symbolic model checking of the real recorders (ReferenceEntry/AnnotationEntry/PropagationEntry.Commit, CommitWithoutNumber, SkipAllInvalidReferenceEntriesForRef, setEntryNumber, GetParentForEntry) over an in-memory Storer: every sequence of <=2 (thorough 3) operations from 6 start states is explored and an independent walker asserts single-parent consecutive numbering, append-only growth and exactly-one/none appended; numbering arithmetic is discharged for an unconstrained 64-bit tip number.",
             note="Storer contract modelled by harness/memstore (stub); policy/attestation composite recorders are covered under C12/C16, not here; bounds in evidence.", ref="DESIGN.md section 4 C03"),
 'C04': dict(text="Bounded symbolic model checking of the real RSL readers (GetLatestReferenceUpdaterEntry with all options, GetFirstReferenceUpdaterEntryForRef, GetNonGittufParentReferenceUpdaterEntryForEntry, GetReferenceUpdaterEntriesInRangeForRef, GetParentForEntry) against a plain reference scan: logs of <=2-3 entries (thorough 3-5) with symbolic reference names, annotation targets, skip flags, option values and, in the tampered variants, one corruption (extra parent, non-entry commit, arbitrary 64-bit number) at any position.",
             note="Entries are injected through the package's entry cache so that text parsing (C14) is not re-explored; GetFirstReferenceUpdaterEntryForCommit is outside the claim; error classes on tampered logs are only required to be errors.", ref="DESIGN.md section 4 C04"),
 'C13': dict(text="One inductive step per metadata mutator, decided symbolically: from a well-formed rule file / root of trust (both schema versions) every mutator is run with arbitrary arguments (names incl. reserved, principal lists with repetition and undefined ids, unconstrained 64-bit thresholds) and the well-formedness invariant or 'refused and unchanged' is asserted; v0.1 to v0.2 migration answers every query identically.",
             note="JSON serialise/reload equivalence is NOT claimed (encoding/json is reflection-driven and cannot be encoded); cross-file rule-name uniqueness through the repository API is outside this check; pre-states are the bounded family listed in evidence.", ref="DESIGN.md section 4 C13"),
 'C14': dict(text="Bounded symbolic model checking of the real entry text codec (createCommitMessage x3, parseRSLEntryText and the three state machines, entryBody, setHash, setNumber, githash.NewHash): round trips with symbolic id bytes, trailing reference-name bytes and boundary numbers; parser agreement with an independent reference grammar plus canonical-text fixpoint on structured texts (free lines, and one structured mutation of a complete valid text) with symbolic bytes; header/blank-line variants; all byte strings up to 3 bytes.",
             note="Unstructured byte strings longer than 3-4 bytes are outside the bound; std strings/strconv/pem/hex are interpreted from source or run natively on concrete data (trusted).", ref="DESIGN.md section 4 C14"),
}
claimed.update({
 'C05': dict(text="Bounded symbolic model checking of the real SignatureVerifier.Verify, gitobject.Verify, dsse.VerifyEnvelope and EnvelopeVerifier.Verify: up to 2 (thorough 3) principals (bare keys or persons with 1-2 keys, optionally sharing a key), thresholds -1..5, a Git object signed by any key / unsigned / absent, and an envelope of up to 2 (thorough 3) signature slots whose signer and validity (made over this payload or lifted from another) are symbolic; the verdict is compared with a matching-based reference (sound) and with exact counting when no key is shared.",
             note="Signature primitives (ssh/gpg/sigstore) are modelled (EUF-CMA format model); sigstore key type and signature extensions are not exercised; map iteration is insertion order.", ref="DESIGN.md section 4 C05"),
 'C06': dict(text="Bounded symbolic model checking of the real State.FindVerifiersForPath / findVerifiersForPathIfProtected walk over 3 (thorough 4) rule files of up to 2 (thorough 3) rules: which file each rule delegates to (cycles, diamonds, missing files), per-rule matches bits and terminating flags are symbolic; the consulted (name, threshold, principals) set is compared with the documented walk.",
             note="Delegation.Matches is replaced by one symbolic bit per rule name (fnmatch itself is outside this check); ListRules is not covered; rule files are built directly (jsonmodel for envelope payloads).", ref="DESIGN.md section 4 C06"),
 'C01': dict(text="Bounded symbolic model checking of the real full-verification path (VerifyRefFull -> VerifyRelativeForRef -> verifyEntry -> verifyGitObjectAndAttestations -> FindVerifiersForPath -> SignatureVerifier.Verify, LoadState, State.Verify, VerifyNewState, all rsl readers) on histories built with gittuf's own recorders: an initial policy with a delegated rule file, then up to 2 (thorough 3) free slots (pushes to a protected, a delegated and an unprotected branch signed by any key / unknown key / unsigned, and policy updates that authorise or de-authorise keys); accept implies every entry authorised by the policy preceding it, authorised histories verify, tip is the latest target.",
             note="Approvals, tags, propagation entries and annotations are not in this history menu yet (C07/C09 harnesses); crypto, JSON and storage are the stated models; random long histories are outside this technique.", ref="DESIGN.md section 4 C01"),
 'C11': dict(text="Bounded symbolic model checking of the real verification path under policies that combine the delegation rules with a global rule drawn from a menu (threshold rule matching / not matching the branch, catch-all threshold 2, block-force-push) over up to 2 (thorough 3) pushes / force pushes with symbolic signers: accept implies delegation rules and every matching global rule satisfied; the known exhaustive-verifier defect is reported as a KNOWN-FINDING with a solver witness.",
             note="Same models as C01; controller-declared global rules are outside the check.", ref="DESIGN.md section 4 C11"),
 'C02': dict(text="Bounded symbolic model checking of LoadCurrentState / LoadState, State.Verify, VerifyNewState(Metadata) and the in-range policy branch of VerifyRelativeForRef: a successor policy state written straight to the policy ref with any declared root principals, root threshold, any subset of old and new keys signing, unconstrained 64-bit root and rule-file versions and a rule-file variant (proper, forged, missing, delegated file dropped, unreachable file); reference entries before and/or after it; verification mode full / latest-only / from-entry / mergeability; an invalid successor must fail every mode that depends on it and LoadCurrentState errs iff the chain is invalid.",
             note="One successor state (two policy states) per run; controller metadata and WithInitialRootPrincipals are outside the check.", ref="DESIGN.md section 4 C02"),
})
claimed.update({
 'C07': dict(text="Bounded symbolic model checking of the real recovery logic (VerifyRefFull -> VerifyRelativeForRef incl. the fix search and the deferred queue, rsl range/latest readers, ReferenceEntry.SkippedBy) with the real per-entry verification: after a valid first entry, up to 2 (thorough 3) slots of pushes to the branch by a symbolic signer (authorised, de-authorised by an interleaved policy update, never authorised) restoring one of two trees, each optionally followed by an annotation revoking any subset of earlier entries; the verdict equals a transcription of the property's recovery rules.",
             note="A violation in the very first entry for a reference is outside the statement and the check; attestation entries are not interleaved; crypto/JSON/storage models as stated.", ref="DESIGN.md section 4 C07"),
 'C08': dict(text="Bounded symbolic model checking of cache independence over the real cacheSearcher, cache.Persistent, PopulatePersistentCache and the cache writes of VerifyRelativeForRef: histories of up to 2 (thorough 3) slots (pushes by symbolic signers, a de-authorising policy update) interleaved with cache actions (populate, full verification, latest-only verification); the final verdict and tip with the cache left behind equal those with the cache removed, repeated verification agrees, and no reference but the cache reference changes. The stale-cache defect is reported as a KNOWN-FINDING with a solver witness.",
             note="The process-wide rsl entry cache is reset per explored path; checkpoints arise only through earlier verifications in the same history.", ref="DESIGN.md section 4 C08"),
 'C09': dict(text="Bounded symbolic model checking of reference authorizations in the real verification path (getApproverAttestationAndKeyIDs(ForIndex), Attestations.GetReferenceAuthorizationFor, authorizations v0.2 Validate, LoadAttestationsForEntry, SignatureVerifier.Verify on the authorization envelope): a threshold-2/3 rule, up to 2 authorizations whose statement may name another ref/from/to, stored at the exact path, at their own path or elsewhere, with one symbolic signature slot per key, recorded before or after the entry, and a symbolic pusher; accept iff the principals counted for this exact change reach the threshold.",
             note="Code-review (GitHub app) approvals are NOT covered: their payloads are decoded from JSON into a different Go type than the one marshalled, which the JSON round-trip model cannot express (see DESIGN.md); tags are not covered.", ref="DESIGN.md section 4 C09"),
 'C12': dict(text="Bounded symbolic model checking of policy.Apply, Discard, State.Commit, ReconcileStaging, LoadCurrentState and State.Verify over sequences of up to 2 (thorough 3) operations (stage a valid / under-threshold / rolled-back / foreign-root successor, apply, discard, move the policy ref behind gittuf's back): the policy ref moves only inside a successful Apply, only to the staged tip, which descends from the old tip, is a valid successor, and is the target of the log entry appended by the same call; refused Apply leaves the ref; published states load.",
             note="The experimental/gittuf API layer (loadRootMetadata, isKeyAuthorized and the individual mutator commands) is outside the check: it is bound to gitinterface.Repository rather than gitstore.Storer.", ref="DESIGN.md section 4 C12"),
 'C16': dict(text="Solver-decided fault enumeration over the real recorders: for the operations the property lists that are available on a Storer (record a reference entry, annotation, State.Commit to staging, Apply) from an empty and an established repository, the index k of the failing storage call is a symbolic integer compared with the store's call counter; after the fault: error reported, log a valid chain, managed refs unchanged or in step with the log, and a retry reaches the uninterrupted state (up to commit ids).",
             note="Crash (abandon) mode, Attestations.Commit and ReconcileStaging as stand-alone operations are not yet covered; a failed read of the optional local cache reference may be tolerated by the operation (then it must still reach the uninterrupted state).", ref="DESIGN.md section 4 C16"),
 'C19': dict(text="Bounded symbolic model checking of VerifyMergeable / verifyMergeable against the real VerifyRefFull of the recorded merge: thresholds 1..3, an optional exact authorization with one symbolic signature slot per key, a fast-forward merge recorded by a symbolic candidate (any key, unknown key, unsigned); 'no signature needed' implies it verifies for every recorder, 'signature needed' iff the recorder is a not-yet-counted authorised principal, 'not possible' implies it verifies for none (known threshold-1 finding reported with a witness).",
             note="Merge commits (non fast-forward), file rules, global rules and code-review approvals are not in this menu.", ref="DESIGN.md section 4 C19"),
})
reasons = {
 'C20': "hook sandbox confinement/timeouts concern the gopher-lua VM and wall-clock deadlines, which cannot be encoded in SMT through the Go SSA interpreter (DESIGN.md section 4, C20)",
}
checks = []
for p in props:
    i = p['id']
    if i in claimed and os.path.exists(os.path.join(here, 'checks', i + '.json')):
        c = claimed[i]
        checks.append({
            "property_id": i,
            "quick_cmd": "./check %s quick" % i,
            "thorough_cmd": "./check %s thorough" % i,
            "evidence_file": "/verif/evidence/%s.json" % i,
            "replay_cmd_template": "./check-replay {path}",
            "engine": "gosym",
            "level_claimed": {"category": "model_checking", "text": c['text'], "design_ref": c['ref']},
            "level_note": c['note'],
            "technique": TECH,
        })
na = []
for p in props:
    if p['id'] not in [c['property_id'] for c in checks]:
        na.append({"property_id": p['id'], "reason": reasons.get(p['id'], "check not yet built (work in progress; see DESIGN.md section 9)")})
m = {
 "version": 1,
 "setup_cmd": "./setup.sh",
 "hooks": {"guard": "verif", "enable": "none needed: harnesses and models enter the build only through go/packages overlays (symbolic) and go test -overlay (replay); /repo is modified only by fix: commits", "baseline_off_cmd": "cd /repo && go test -mod=mod -vet=off -count=1 -timeout 60m ./...", "source_commits": [], "add_only": True},
 "engines": [{"name": "gosym", "path": "/verif/engine", "serves_properties": [c['property_id'] for c in checks], "kind_free_text": "own Go SSA symbolic interpreter (fork of x/tools go/ssa/interp with symbolic bit-vector/bool/string values, path exploration by deterministic re-execution, z3 over a pipe), harnesses injected by overlay, native replay through go test -overlay"}],
 "checks": checks,
 "notes": "Every check reloads /repo's working tree and regenerates the SSA encoding on each run. Exit 0 = all obligations unsat within the stated bounds; exit 1 + VIOLATION line = replayed counterexample; exit 2 = inconclusive (solver unknown, unsupported construct, step/path budget, vacuity) and is never a pass. See DESIGN.md.",
 "not_applicable": na,
}
json.dump(m, open(os.path.join(here, 'MANIFEST.json'), 'w'), indent=1)
print("claimed:", [c['property_id'] for c in checks])
