#!/bin/sh
# usage: tools/seedtest.sh <patch.diff> <check id> [tier]
# Applies a seeded change to /repo, runs the check, and undoes the change.
patch="$1"; id="$2"; tier="${3:-quick}"
cd /verif
git -C /repo apply "$patch" || { echo "patch does not apply"; exit 3; }
./check "$id" "$tier" > /tmp/seedtest.out 2> /tmp/seedtest.err
rc=$?
git -C /repo apply -R "$patch"
grep -E "^VIOLATION|^KNOWN" /tmp/seedtest.out
grep -E "violated:|INCONCLUSIVE|inconclusive|vacuous|ENCODING|discharged on" /tmp/seedtest.err | head -12
echo "exit=$rc"
exit $rc
