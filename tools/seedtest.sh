#!/bin/sh
# usage: tools/seedtest.sh <patch.diff> <check id> [tier]
# Applies a seeded change to /repo (which must be clean), runs the check, and restores /repo.
patch="$1"; id="$2"; tier="${3:-quick}"
cd /verif
if ! git -C /repo diff --quiet; then echo "refusing: /repo has uncommitted changes"; exit 3; fi
git -C /repo apply "$patch" || { echo "patch does not apply"; exit 3; }
./check "$id" "$tier" > /tmp/seedtest.out 2> /tmp/seedtest.err
rc=$?
git -C /repo checkout -- .
git -C /repo diff --quiet || echo "WARNING: /repo not clean after restore"
grep -E "^VIOLATION|^KNOWN" /tmp/seedtest.out
grep -E "violated:|INCONCLUSIVE|inconclusive|vacuous|ENCODING|discharged on" /tmp/seedtest.err | head -12
echo "exit=$rc"
exit $rc
