package main

// Native realisation of the interception table: for every intercepted
// function the file that defines it is rewritten (in a temporary copy used
// through go test -overlay) so that the function forwards to its model; the
// original body is kept under a different name.  The symbolic engine and the
// native replay therefore run the same real code with the same stubs.

import (
	"bytes"
	"fmt"
	"go/ast"
	"go/parser"
	"go/printer"
	"go/token"
	"os"
	"path/filepath"
	"strconv"
	"strings"
)

const modulePath = "github.com/gittuf/gittuf"

type funcRef struct {
	pkgPath string
	recv    string // "" | "T" | "*T"
	name    string
}

func parseFuncRef(s string) (funcRef, error) {
	var fr funcRef
	if strings.HasPrefix(s, "(") {
		end := strings.Index(s, ").")
		if end < 0 {
			return fr, fmt.Errorf("bad function reference %q", s)
		}
		recv := s[1:end]
		fr.name = s[end+2:]
		ptr := strings.HasPrefix(recv, "*")
		recv = strings.TrimPrefix(recv, "*")
		dot := strings.LastIndex(recv, ".")
		fr.pkgPath = recv[:dot]
		fr.recv = recv[dot+1:]
		if ptr {
			fr.recv = "*" + fr.recv
		}
		return fr, nil
	}
	dot := strings.LastIndex(s, ".")
	if dot < 0 {
		return fr, fmt.Errorf("bad function reference %q", s)
	}
	fr.pkgPath, fr.name = s[:dot], s[dot+1:]
	return fr, nil
}

func pkgDir(pkgPath string) (string, bool) {
	if pkgPath == modulePath {
		return *repoDir, true
	}
	if !strings.HasPrefix(pkgPath, modulePath+"/") {
		return "", false
	}
	return filepath.Join(*repoDir, strings.TrimPrefix(pkgPath, modulePath+"/")), true
}

func recvString(fd *ast.FuncDecl) string {
	if fd.Recv == nil || len(fd.Recv.List) == 0 {
		return ""
	}
	switch t := fd.Recv.List[0].Type.(type) {
	case *ast.StarExpr:
		if id, ok := t.X.(*ast.Ident); ok {
			return "*" + id.Name
		}
	case *ast.Ident:
		return t.Name
	}
	return "?"
}

// nativeInterceptOverlay returns overlay entries (real path -> temp file).
func nativeInterceptOverlay(intercept map[string]string, existing map[string]string, tmp string) (map[string]string, error) {
	out := map[string]string{}
	type edit struct {
		real  funcRef
		model string
	}
	byDir := map[string][]edit{}
	for real, model := range intercept {
		fr, err := parseFuncRef(real)
		if err != nil {
			return nil, err
		}
		dir, ok := pkgDir(fr.pkgPath)
		if !ok {
			return nil, fmt.Errorf("native replay cannot intercept %s: not a gittuf package", real)
		}
		byDir[dir] = append(byDir[dir], edit{fr, model})
	}
	n := 0
	for dir, edits := range byDir {
		ents, err := os.ReadDir(dir)
		if err != nil {
			return nil, err
		}
		fset := token.NewFileSet()
		files := map[string]*ast.File{}
		for _, e := range ents {
			if !strings.HasSuffix(e.Name(), ".go") || strings.HasSuffix(e.Name(), "_test.go") {
				continue
			}
			path := filepath.Join(dir, e.Name())
			src := path
			if o, ok := existing[path]; ok {
				src = o
			}
			f, err := parser.ParseFile(fset, src, nil, parser.ParseComments)
			if err != nil {
				return nil, err
			}
			files[path] = f
		}
		changed := map[string]bool{}
		for _, ed := range edits {
			found := false
			for path, f := range files {
				for _, d := range f.Decls {
					fd, ok := d.(*ast.FuncDecl)
					if !ok || fd.Name.Name != ed.real.name || recvString(fd) != ed.real.recv {
						continue
					}
					found = true
					changed[path] = true
					// forwarding stub
					stub := &ast.FuncDecl{Name: ast.NewIdent(fd.Name.Name), Type: fd.Type, Recv: fd.Recv}
					fd.Name = ast.NewIdent(fd.Name.Name + "ZZReal")
					var args []ast.Expr
					if stub.Recv != nil {
						if len(stub.Recv.List[0].Names) == 0 || stub.Recv.List[0].Names[0].Name == "_" {
							stub.Recv.List[0].Names = []*ast.Ident{ast.NewIdent("zzrecv")}
						}
						args = append(args, ast.NewIdent(stub.Recv.List[0].Names[0].Name))
					}
					k := 0
					for _, p := range stub.Type.Params.List {
						if len(p.Names) == 0 {
							p.Names = []*ast.Ident{ast.NewIdent("zzp" + strconv.Itoa(k))}
							k++
						}
						for i, nm := range p.Names {
							if nm.Name == "_" {
								p.Names[i] = ast.NewIdent("zzp" + strconv.Itoa(k))
								k++
							}
							var a ast.Expr = ast.NewIdent(p.Names[i].Name)
							if _, variadic := p.Type.(*ast.Ellipsis); variadic {
								a = &ast.CallExpr{Fun: a}
								args = append(args, ast.NewIdent(p.Names[i].Name))
								continue
							}
							args = append(args, a)
						}
					}
					var body []ast.Stmt
					if ed.model == "noop" {
						if stub.Type.Results != nil && len(stub.Type.Results.List) > 0 {
							// declare named zero results
							var names []ast.Expr
							var decls []ast.Stmt
							r := 0
							for _, res := range stub.Type.Results.List {
								cnt := len(res.Names)
								if cnt == 0 {
									cnt = 1
								}
								for c := 0; c < cnt; c++ {
									nm := "zzr" + strconv.Itoa(r)
									r++
									decls = append(decls, &ast.DeclStmt{Decl: &ast.GenDecl{Tok: token.VAR, Specs: []ast.Spec{&ast.ValueSpec{Names: []*ast.Ident{ast.NewIdent(nm)}, Type: res.Type}}}})
									names = append(names, ast.NewIdent(nm))
								}
							}
							body = append(decls, &ast.ReturnStmt{Results: names})
						}
					} else {
						mr, err := parseFuncRef(ed.model)
						if err != nil {
							return nil, err
						}
						var fun ast.Expr
						if mr.pkgPath == ed.real.pkgPath {
							fun = ast.NewIdent(mr.name)
						} else {
							alias := "zzmodel" + strconv.Itoa(n)
							n++
							f.Imports = append(f.Imports, &ast.ImportSpec{Name: ast.NewIdent(alias), Path: &ast.BasicLit{Kind: token.STRING, Value: strconv.Quote(mr.pkgPath)}})
							f.Decls = append([]ast.Decl{&ast.GenDecl{Tok: token.IMPORT, Specs: []ast.Spec{f.Imports[len(f.Imports)-1]}}}, f.Decls...)
							fun = &ast.SelectorExpr{X: ast.NewIdent(alias), Sel: ast.NewIdent(mr.name)}
						}
						call := &ast.CallExpr{Fun: fun, Args: args}
						if last := stub.Type.Params.List; len(last) > 0 {
							if _, variadic := last[len(last)-1].Type.(*ast.Ellipsis); variadic {
								call.Ellipsis = token.Pos(1)
							}
						}
						if stub.Type.Results != nil && len(stub.Type.Results.List) > 0 {
							body = []ast.Stmt{&ast.ReturnStmt{Results: []ast.Expr{call}}}
						} else {
							body = []ast.Stmt{&ast.ExprStmt{X: call}}
						}
					}
					stub.Body = &ast.BlockStmt{List: body}
					f.Decls = append(f.Decls, stub)
					break
				}
				if found {
					break
				}
			}
			if !found {
				return nil, fmt.Errorf("native replay: function %v not found in %s", ed.real, dir)
			}
		}
		for path := range changed {
			var buf bytes.Buffer
			if err := printer.Fprint(&buf, fset, files[path]); err != nil {
				return nil, err
			}
			name := filepath.Join(tmp, "icpt_"+strings.ReplaceAll(strings.TrimPrefix(path, *repoDir+"/"), "/", "_"))
			if err := os.WriteFile(name, buf.Bytes(), 0o644); err != nil {
				return nil, err
			}
			out[path] = name
		}
	}
	return out, nil
}
