package main

import (
	"encoding/json"
	"os"
	"os/exec"
	"sort"
	"strings"
	"time"

	"gosym/interp"
)

type entryReport struct {
	Entry        string         `json:"entry"`
	Note         string         `json:"note,omitempty"`
	Bounds       map[string]int `json:"bounds,omitempty"`
	BoundParams  map[string]int    `json:"bound_parameters"` // harness bound parameters (verif.Bound) and the value used in this tier
	Inputs       map[string]string `json:"symbolic_inputs"`  // symbolic inputs by name pattern (# = a digit) and their domains
	Paths        int            `json:"paths"`
	Infeasible   int            `json:"paths_cut_by_assume"`
	Forks        int            `json:"decisions_forked"`
	Pruned       int            `json:"decisions_pruned_by_solver"`
	Obligations  int            `json:"obligations"`
	Discharged   int            `json:"discharged"`
	Unknown      int            `json:"solver_unknown"`
	Unsupported  int            `json:"unsupported_paths"`
	Budget       int            `json:"unwinding_failures"`
	Steps        int64          `json:"ssa_instructions_executed"`
	MaxDepth     int            `json:"max_decisions_on_a_path"`
	FeasQueries  int            `json:"feasibility_queries"`
	ValidQueries int            `json:"assertion_queries"`
	SolverS      float64        `json:"solver_time_s"`
	MaxQueryMs   float64        `json:"max_query_ms"`
	WallS        float64        `json:"wall_s"`
	Reached      map[string]int `json:"reach_labels"`
	Vacuous      []string       `json:"vacuous_labels,omitempty"`
	Inconclusive map[string]int `json:"inconclusive_reasons,omitempty"`
	TimedOut     bool           `json:"stopped_by_limit,omitempty"`
}

type evidence struct {
	cfg   *CheckCfg
	Tier  string
	Seed  int
	LoadS float64
	Wall  float64

	Entries         []*entryReport
	Samples         []any
	Funcs           map[string]bool
	Stubs           map[string]int
	Violations      []map[string]any
	KnownReproduced []map[string]any
	NViolations     int
	Inconclusive    bool
	Validated       int
}

func newEvidence(cfg *CheckCfg, tier string, seed int) *evidence {
	return &evidence{cfg: cfg, Tier: tier, Seed: seed, Funcs: map[string]bool{}, Stubs: map[string]int{}}
}

func (ev *evidence) addEntry(ent EntryCfg, tc TierCfg, ex *interp.Explorer, d time.Duration) *entryReport {
	er := &entryReport{
		Entry: ent.Name, Note: ent.Note, Bounds: tc.Bounds,
		Paths: ex.Stats.Paths, Infeasible: ex.Stats.Infeasible, Forks: ex.Stats.Forks, Pruned: ex.Stats.Pruned,
		Obligations: ex.Stats.Obligations, Discharged: ex.Stats.Discharged, Unknown: ex.Stats.Unknown,
		Unsupported: ex.Stats.Unsupported, Budget: ex.Stats.BudgetExceeded, Steps: ex.Stats.Steps, MaxDepth: ex.Stats.MaxDepth,
		FeasQueries: ex.Solver.Feasibility, ValidQueries: ex.Solver.Validity,
		SolverS: ex.Solver.Time.Seconds(), MaxQueryMs: float64(ex.Solver.MaxQuery.Microseconds()) / 1000,
		WallS: d.Seconds(), Reached: ex.Reached, TimedOut: ex.TimedOut,
		BoundParams: ex.BoundsUsed, Inputs: ex.Inputs,
	}
	if len(ex.Unsupp) > 0 {
		er.Inconclusive = ex.Unsupp
	}
	ev.Entries = append(ev.Entries, er)
	for _, s := range ex.Samples {
		if len(ev.Samples) < 24 {
			ev.Samples = append(ev.Samples, map[string]any{"entry": ent.Name, "decisions": s.Decisions, "outcome": s.Outcome, "model_of_path_condition": s.Model, "observed": s.Observed, "reached": s.Reached})
		}
	}
	for f := range ex.Funcs {
		ev.Funcs[f] = true
	}
	for s, n := range ex.StubsUsed {
		ev.Stubs[s] += n
	}
	return er
}

// boundsDoc states the bounds of the run: the harness bound parameters with
// the values of this tier and the domain of every symbolic input, per entry
// (loops in the code under test are not unwound to a fixed depth: every loop
// runs until its own exit condition, whose symbolic branches are forked and
// decided by the solver; a path that exceeds the step budget is reported as an
// unwinding failure and makes the run inconclusive).
func (ev *evidence) boundsDoc() map[string]any {
	doc := map[string]any{"tier": ev.Tier, "loop_unwinding": "none fixed: loops run to their exit condition, every symbolic branch forked; step budget exceeded = unwinding failure = inconclusive"}
	per := map[string]any{}
	for _, e := range ev.Entries {
		per[e.Entry] = map[string]any{"bound_parameters": e.BoundParams, "symbolic_inputs": e.Inputs}
	}
	doc["per_entry"] = per
	if len(ev.cfg.BoundsText) > 0 {
		doc["notes"] = ev.cfg.BoundsText
	}
	return doc
}

func (ev *evidence) totalObl() int {
	n := 0
	for _, e := range ev.Entries {
		n += e.Obligations
	}
	return n
}

func (ev *evidence) totalPaths() int {
	n := 0
	for _, e := range ev.Entries {
		n += e.Paths
	}
	return n
}

func solverVersion() string {
	out, err := exec.Command("z3", "--version").Output()
	if err != nil {
		return "z3 (version unknown)"
	}
	return strings.TrimSpace(string(out))
}

func (ev *evidence) write(path string) error {
	var paths, trans, obl, dis, feas int
	var solverS float64
	for _, e := range ev.Entries {
		paths += e.Paths
		trans += e.Forks + e.Pruned
		obl += e.Obligations
		dis += e.Discharged
		feas += e.FeasQueries
		solverS += e.SolverS
	}
	var gittufFuncs, otherFuncs []string
	for f := range ev.Funcs {
		if strings.Contains(f, "github.com/gittuf/gittuf") && !strings.Contains(f, "zzverif") && !strings.Contains(f, "Harness") && !strings.Contains(f, "zz") {
			gittufFuncs = append(gittufFuncs, f)
		} else {
			otherFuncs = append(otherFuncs, f)
		}
	}
	sort.Strings(gittufFuncs)
	sort.Strings(otherFuncs)
	samples := ev.Samples
	if len(samples) == 0 {
		samples = []any{map[string]any{"note": "no completed path was sampled"}}
	}
	assumptions := append([]string{
		"bounded: see coverage.bounds; nothing is claimed outside the bounds",
		"Go semantics as implemented by the gosym SSA interpreter (fork of x/tools ssa/interp), integers as SMT bit-vectors of the Go width",
		"z3 answers are trusted; any unknown/timeout/(error makes the run inconclusive (exit 2), never a pass",
	}, ev.cfg.Assumptions...)
	var stubs []string
	for s := range ev.Stubs {
		stubs = append(stubs, s)
	}
	sort.Strings(stubs)
	cov := map[string]any{
		"states":                        paths,
		"transitions":                   trans,
		"traces_validated_against_impl": ev.Validated,
		"samples":                       samples,
		"obligations":                   obl,
		"discharged":                    dis,
		"feasibility_queries":           feas,
		"solver_time_s":                 solverS,
		"solver":                        solverVersion(),
		"entries":                       ev.Entries,
		"functions_encoded_gittuf":      gittufFuncs,
		"functions_encoded_other_count": len(otherFuncs),
		"stubs_intercepted":             stubs,
		"bounds":                        ev.boundsDoc(),
		"load_and_ssa_build_s":          ev.LoadS,
		"inconclusive":                  ev.Inconclusive,
		"violations":                    ev.Violations,
		"known_findings_reproduced":     ev.KnownReproduced,
		"explanation":                   "states = completed symbolic paths (each stands for every input satisfying its path condition); transitions = solver-decided choice points (forked + pruned); obligations = assertion queries 'path condition and not(property)', discharged = answered unsat",
		"exhaustive":                    !ev.Inconclusive,
	}
	if paths == 0 {
		cov["states"] = 0
	}
	doc := map[string]any{
		"property_id": ev.cfg.Property,
		"tier":        ev.Tier,
		"seed":        ev.Seed,
		"level":       "model_checking",
		"coverage":    cov,
		"assumptions": assumptions,
		"wall_s":      ev.Wall,
		"violations":  ev.NViolations,
	}
	b, err := json.MarshalIndent(doc, "", " ")
	if err != nil {
		return err
	}
	return os.WriteFile(path, b, 0o644)
}
