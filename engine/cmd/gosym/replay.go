package main

import (
	"encoding/json"
	"fmt"
	"os"
	"os/exec"
	"path/filepath"
	"strings"
)

// nativeReplay runs the harness entry natively (go test -overlay) against the
// real build with the solver's assignment and reports whether the failed
// assertion reproduces.
func nativeReplay(cfg *CheckCfg, entry, replayPath, label string) (bool, string, error) {
	tmp, err := os.MkdirTemp("", "gosym-replay-")
	if err != nil {
		return false, "", err
	}
	defer os.RemoveAll(tmp)
	pkgDir := cfg.Replay.TestPkgDir
	pkgName, err := packageName(filepath.Join(*repoDir, pkgDir))
	if err != nil {
		return false, "", err
	}
	test := fmt.Sprintf(`package %s

import (
	"fmt"
	"testing"

	zzverif "github.com/gittuf/gittuf/internal/zzverif"
)

func TestVerifReplay(t *testing.T) {
	defer func() {
		if r := recover(); r != nil {
			if _, ok := r.(zzverif.AssumeFailed); ok {
				fmt.Println("VERIF-ASSUME-FAILED")
				return
			}
			fmt.Printf("VERIF-PANIC %%v\n", r)
		}
	}()
	%s()
	fmt.Println("VERIF-REPLAY-DONE")
}
`, pkgName, entry)
	testFile := filepath.Join(tmp, "zz_verif_replay_test.go")
	if err := os.WriteFile(testFile, []byte(test), 0o644); err != nil {
		return false, "", err
	}
	repl := map[string]string{
		filepath.Join(*repoDir, "internal/zzverif/verif.go"):       filepath.Join(*verifDir, "harness/verif/verif.go"),
		filepath.Join(*repoDir, pkgDir, "zz_verif_replay_test.go"): testFile,
	}
	for r, v := range cfg.HarnessFiles {
		repl[filepath.Join(*repoDir, r)] = filepath.Join(*verifDir, v)
	}
	for r, v := range cfg.Replay.Overlay {
		repl[filepath.Join(*repoDir, r)] = filepath.Join(*verifDir, v)
	}
	icpt := map[string]string{}
	for k, v := range cfg.Intercept {
		icpt[k] = v
	}
	for _, e := range cfg.Entries {
		if e.Name == entry {
			for k, v := range e.Intercept {
				icpt[k] = v
			}
		}
	}
	if len(icpt) > 0 {
		extra, err := nativeInterceptOverlay(icpt, repl, tmp)
		if err != nil {
			return false, "", err
		}
		for k, v := range extra {
			repl[k] = v
		}
	}
	ob, _ := json.Marshal(map[string]any{"Replace": repl})
	ofile := filepath.Join(tmp, "overlay.json")
	os.WriteFile(ofile, ob, 0o644)
	cmd := exec.Command("go", "test", "-mod=mod", "-vet=off", "-count=1", "-overlay", ofile, "-run", "^TestVerifReplay$", "-v", "./"+pkgDir+"/")
	cmd.Dir = *repoDir
	cmd.Env = append(os.Environ(), "VERIF_REPLAY="+replayPath, "GOFLAGS=-mod=mod", "GOPROXY=off", "GOTOOLCHAIN=local")
	out, err := cmd.CombinedOutput()
	s := string(out)
	if !strings.Contains(s, "VERIF-REPLAY-DONE") && !strings.Contains(s, "VERIF-PANIC") && !strings.Contains(s, "VERIF-ASSUME-FAILED") {
		return false, s, fmt.Errorf("replay did not run to completion: %v", err)
	}
	if strings.Contains(s, "VERIF-ASSUME-FAILED") {
		return false, s, nil
	}
	if label == "panic" {
		return strings.Contains(s, "VERIF-PANIC"), s, nil
	}
	return strings.Contains(s, "VERIF-ASSERT-FAILED "+label+"\n"), s, nil
}

func packageName(dir string) (string, error) {
	ents, err := os.ReadDir(dir)
	if err != nil {
		return "", err
	}
	for _, e := range ents {
		if strings.HasSuffix(e.Name(), ".go") && !strings.HasSuffix(e.Name(), "_test.go") {
			b, err := os.ReadFile(filepath.Join(dir, e.Name()))
			if err != nil {
				continue
			}
			for _, line := range strings.Split(string(b), "\n") {
				if strings.HasPrefix(line, "package ") {
					return strings.Fields(line)[1], nil
				}
			}
		}
	}
	return "", fmt.Errorf("no package clause found in %s", dir)
}
