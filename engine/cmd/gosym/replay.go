package main

import (
	"encoding/json"
	"fmt"
	"os"
	"os/exec"
	"path/filepath"
	"strings"
)

// nativeReplay runs the harness entry natively (go test -overlay) against the
// real build with the solver's assignment and reports whether the failed
// assertion reproduces.
func nativeReplay(cfg *CheckCfg, entry, replayPath, label string) (bool, string, error) {
	tmp, err := os.MkdirTemp("", "gosym-replay-")
	if err != nil {
		return false, "", err
	}
	defer os.RemoveAll(tmp)
	pkgDir := entryTestDir(cfg, entry)
	pkgName, err := packageName(filepath.Join(*repoDir, pkgDir))
	if err != nil {
		return false, "", err
	}
	test := fmt.Sprintf(`package %s

import (
	"fmt"
	"testing"

	zzverif "github.com/gittuf/gittuf/internal/zzverif"
)

func TestVerifReplay(t *testing.T) {
	defer func() {
		if r := recover(); r != nil {
			if _, ok := r.(zzverif.AssumeFailed); ok {
				fmt.Println("VERIF-ASSUME-FAILED")
				return
			}
			fmt.Printf("VERIF-PANIC %%v\n", r)
		}
	}()
	%s()
	fmt.Println("VERIF-REPLAY-DONE")
}
`, pkgName, entry)
	testFile := filepath.Join(tmp, "zz_verif_replay_test.go")
	if err := os.WriteFile(testFile, []byte(test), 0o644); err != nil {
		return false, "", err
	}
	repl := map[string]string{
		filepath.Join(*repoDir, "internal/zzverif/verif.go"):       filepath.Join(*verifDir, "harness/verif/verif.go"),
		filepath.Join(*repoDir, pkgDir, "zz_verif_replay_test.go"): testFile,
	}
	for r, v := range cfg.HarnessFiles {
		repl[filepath.Join(*repoDir, r)] = filepath.Join(*verifDir, v)
	}
	for r, v := range cfg.Replay.Overlay {
		repl[filepath.Join(*repoDir, r)] = filepath.Join(*verifDir, v)
	}
	icpt := map[string]string{}
	for k, v := range cfg.Intercept {
		icpt[k] = v
	}
	for _, e := range cfg.Entries {
		if e.Name == entry {
			for k, v := range e.Intercept {
				icpt[k] = v
			}
		}
	}
	for _, k := range cfg.Replay.NativeInterceptSkip {
		delete(icpt, k)
	}
	if len(icpt) > 0 && !cfg.Replay.NoIntercept {
		extra, err := nativeInterceptOverlay(icpt, repl, tmp)
		if err != nil {
			return false, "", err
		}
		for k, v := range extra {
			repl[k] = v
		}
	}
	ob, _ := json.Marshal(map[string]any{"Replace": repl})
	ofile := filepath.Join(tmp, "overlay.json")
	os.WriteFile(ofile, ob, 0o644)
	cmd := exec.Command("go", "test", "-mod=mod", "-vet=off", "-count=1", "-overlay", ofile, "-run", "^TestVerifReplay$", "-v", "./"+pkgDir+"/")
	cmd.Dir = *repoDir
	cmd.Env = append(os.Environ(), "VERIF_REPLAY="+replayPath, "GOFLAGS=-mod=mod", "GOPROXY=off", "GOTOOLCHAIN=local")
	out, err := cmd.CombinedOutput()
	s := string(out)
	if !strings.Contains(s, "VERIF-REPLAY-DONE") && !strings.Contains(s, "VERIF-PANIC") && !strings.Contains(s, "VERIF-ASSUME-FAILED") {
		return false, s, fmt.Errorf("replay did not run to completion: %v", err)
	}
	if strings.Contains(s, "VERIF-ASSUME-FAILED") {
		return false, s, nil
	}
	if label == "panic" {
		return strings.Contains(s, "VERIF-PANIC"), s, nil
	}
	return strings.Contains(s, "VERIF-ASSERT-FAILED "+label+"\n"), s, nil
}

// traceSample is one explored path to be re-run natively.
type traceSample struct {
	Entry   string
	Model   map[string]uint64
	Reached []string
	Outcome string
	Bounds  map[string]int
	Dir     string
}

// nativeTraces runs the sampled paths natively in one go test invocation and
// returns how many agreed with the symbolic execution (same outcome, same
// sequence of Reach labels, no failed assertion) and a description of the
// disagreements.
func nativeTraces(cfg *CheckCfg, pkgDir string, samples []traceSample) (int, []string, error) {
	if len(samples) == 0 {
		return 0, nil, nil
	}
	tmp, err := os.MkdirTemp("", "gosym-trace-")
	if err != nil {
		return 0, nil, err
	}
	defer os.RemoveAll(tmp)
	pkgName, err := packageName(filepath.Join(*repoDir, pkgDir))
	if err != nil {
		return 0, nil, err
	}
	var cases strings.Builder
	seenEntry := map[string]bool{}
	icpt := map[string]string{}
	for k, v := range cfg.Intercept {
		icpt[k] = v
	}
	for i, s := range samples {
		f := filepath.Join(tmp, fmt.Sprintf("trace-%d.json", i))
		b, _ := json.Marshal(map[string]any{"model": s.Model, "tier": *tier, "bounds": s.Bounds})
		os.WriteFile(f, b, 0o644)
		if !seenEntry[s.Entry] {
			seenEntry[s.Entry] = true
			fmt.Fprintf(&cases, "\t\tcase %q:\n\t\t\t%s()\n", s.Entry, s.Entry)
			for _, e := range cfg.Entries {
				if e.Name == s.Entry {
					for k, v := range e.Intercept {
						icpt[k] = v
					}
				}
			}
		}
	}
	var list strings.Builder
	for i, s := range samples {
		fmt.Fprintf(&list, "%s %s\n", s.Entry, filepath.Join(tmp, fmt.Sprintf("trace-%d.json", i)))
	}
	listFile := filepath.Join(tmp, "list.txt")
	os.WriteFile(listFile, []byte(list.String()), 0o644)
	test := fmt.Sprintf(`package %s

import (
	"fmt"
	"os"
	"strings"
	"testing"

	zzverif "github.com/gittuf/gittuf/internal/zzverif"
)

func zzRunTraced(entry string) (outcome string) {
	defer func() {
		if r := recover(); r != nil {
			if _, ok := r.(zzverif.AssumeFailed); ok {
				outcome = "assume"
				return
			}
			outcome = "panic"
		}
	}()
	switch entry {
%s	}
	return "ok"
}

func TestVerifTrace(t *testing.T) {
	b, err := os.ReadFile(os.Getenv("VERIF_TRACE_LIST"))
	if err != nil {
		t.Fatal(err)
	}
	for i, line := range strings.Split(strings.TrimSpace(string(b)), "\n") {
		parts := strings.SplitN(line, " ", 2)
		zzverif.LoadReplayFile(parts[1])
		outcome := zzRunTraced(parts[0])
		fmt.Printf("VERIF-TRACE %%d outcome=%%s reached=%%s failed=%%s\n", i, outcome, strings.Join(zzverif.ReachedL, ","), strings.Join(zzverif.Failed, ","))
		fmt.Printf("VERIF-OBSERVED %%d %%s\n", i, strings.Join(zzverif.ObservedL, " | "))
	}
	fmt.Println("VERIF-TRACE-DONE")
}
`, pkgName, cases.String())
	testFile := filepath.Join(tmp, "zz_verif_trace_test.go")
	if err := os.WriteFile(testFile, []byte(test), 0o644); err != nil {
		return 0, nil, err
	}
	repl := map[string]string{
		filepath.Join(*repoDir, "internal/zzverif/verif.go"):      filepath.Join(*verifDir, "harness/verif/verif.go"),
		filepath.Join(*repoDir, pkgDir, "zz_verif_trace_test.go"): testFile,
	}
	for r, v := range cfg.HarnessFiles {
		repl[filepath.Join(*repoDir, r)] = filepath.Join(*verifDir, v)
	}
	for r, v := range cfg.Replay.Overlay {
		repl[filepath.Join(*repoDir, r)] = filepath.Join(*verifDir, v)
	}
	for _, k := range cfg.Replay.NativeInterceptSkip {
		delete(icpt, k)
	}
	if len(icpt) > 0 && !cfg.Replay.NoIntercept {
		extra, err := nativeInterceptOverlay(icpt, repl, tmp)
		if err != nil {
			return 0, nil, err
		}
		for k, v := range extra {
			repl[k] = v
		}
	}
	ob, _ := json.Marshal(map[string]any{"Replace": repl})
	ofile := filepath.Join(tmp, "overlay.json")
	os.WriteFile(ofile, ob, 0o644)
	cmd := exec.Command("go", "test", "-mod=mod", "-vet=off", "-count=1", "-overlay", ofile, "-run", "^TestVerifTrace$", "-v", "./"+pkgDir+"/")
	cmd.Dir = *repoDir
	cmd.Env = append(os.Environ(), "VERIF_TRACE_LIST="+listFile, "GOFLAGS=-mod=mod", "GOPROXY=off", "GOTOOLCHAIN=local")
	out, err := cmd.CombinedOutput()
	so := string(out)
	if !strings.Contains(so, "VERIF-TRACE-DONE") {
		return 0, nil, fmt.Errorf("native trace run did not complete: %v\n%s", err, tail(so, 30))
	}
	agree := 0
	var diffs []string
	got := map[int]string{}
	for _, line := range strings.Split(so, "\n") {
		var idx int
		if strings.HasPrefix(line, "VERIF-TRACE ") && !strings.HasPrefix(line, "VERIF-TRACE-DONE") {
			rest := strings.TrimPrefix(line, "VERIF-TRACE ")
			sp := strings.IndexByte(rest, ' ')
			fmt.Sscanf(rest[:sp], "%d", &idx)
			got[idx] = rest[sp+1:]
		}
	}
	for i, s := range samples {
		want := fmt.Sprintf("outcome=%s reached=%s failed=", s.Outcome, strings.Join(s.Reached, ","))
		if got[i] == want {
			agree++
		} else {
			obs := ""
			for _, line := range strings.Split(so, "\n") {
				if strings.HasPrefix(line, fmt.Sprintf("VERIF-OBSERVED %d ", i)) {
					obs = line
				}
			}
			diffs = append(diffs, fmt.Sprintf("%s model=%v: symbolic {%s} native {%s} %s", s.Entry, s.Model, want, got[i], obs))
		}
	}
	return agree, diffs, nil
}

func packageName(dir string) (string, error) {
	ents, err := os.ReadDir(dir)
	if err != nil {
		return "", err
	}
	for _, e := range ents {
		if strings.HasSuffix(e.Name(), ".go") && !strings.HasSuffix(e.Name(), "_test.go") {
			b, err := os.ReadFile(filepath.Join(dir, e.Name()))
			if err != nil {
				continue
			}
			for _, line := range strings.Split(string(b), "\n") {
				if strings.HasPrefix(line, "package ") {
					return strings.Fields(line)[1], nil
				}
			}
		}
	}
	return "", fmt.Errorf("no package clause found in %s", dir)
}
