// Command gosym runs a solver-based check: it loads gittuf from the
// repository's current working tree together with overlay-injected harness
// files, symbolically executes the harness entry functions, discharges
// every assertion with an SMT solver, replays counterexamples natively and
// writes the evidence file.
package main

import (
	"encoding/json"
	"flag"
	"fmt"
	"os"
	"path/filepath"
	"runtime/pprof"
	"sort"
	"strconv"
	"strings"
	"time"

	"gosym/interp"

	"golang.org/x/tools/go/packages"
	"golang.org/x/tools/go/ssa"
	"golang.org/x/tools/go/ssa/ssautil"
)

const verifPkgPath = "github.com/gittuf/gittuf/internal/zzverif"

type EntryCfg struct {
	Name            string            `json:"name"`
	Note            string            `json:"note"`
	PanicIsViolation bool             `json:"panic_is_violation"`
	ReachRequired   []string          `json:"reach_required"`
	Tiers           map[string]TierCfg `json:"tiers"`
	Intercept       map[string]string `json:"intercept"`
	Package         string            `json:"package"`      // overrides the check's package for this entry
	TestPkgDir      string            `json:"test_pkg_dir"` // overrides replay.test_pkg_dir for this entry
}

type TierCfg struct {
	Bounds    map[string]int `json:"bounds"`
	TimeoutS  int            `json:"timeout_s"`
	MaxPaths  int            `json:"max_paths"`
	StepBudget int64         `json:"step_budget"`
	Skip      bool           `json:"skip"`
}

type KnownCfg struct {
	ID   string `json:"id"`
	What string `json:"what"`
}

type CheckCfg struct {
	Property     string            `json:"property"`
	Package      string            `json:"package"`       // import path of the package the harness lives in
	HarnessFiles map[string]string `json:"harness_files"` // path under /repo -> path under /verif
	Roots        []string          `json:"roots"`         // extra packages to load
	Entries      []EntryCfg        `json:"entries"`
	Intercept    map[string]string `json:"intercept"`
	Assumptions  []string          `json:"assumptions"`
	BoundsText   map[string]string `json:"bounds_text"`
	Known        []KnownCfg        `json:"known"`
	Replay       *ReplayCfg        `json:"replay"`
	Include      []string          `json:"include"` // other config files (relative to /verif) whose harness_files, intercept, roots and assumptions are merged in
}

type ReplayCfg struct {
	TestPkgDir string            `json:"test_pkg_dir"` // package dir under /repo where the replay test lives
	Overlay    map[string]string `json:"overlay"`      // extra overlay entries for native replay: /repo-relative -> /verif-relative
	Disabled   bool              `json:"disabled"`
	NoIntercept bool             `json:"no_native_intercept"` // run natively against the unmodified functions (the real git binary)
	NativeInterceptSkip []string `json:"native_intercept_skip"` // intercept keys that are not applied in native replays (the real function runs)
	Why        string            `json:"why"`
}

var (
	verifDir = flag.String("verif", "/verif", "verification directory")
	repoDir  = flag.String("repo", "/repo", "repository under test")
	tier     = flag.String("tier", "quick", "quick|thorough")
	seed     = flag.Int("seed", 0, "seed")
	workers  = flag.Int("workers", 0, "worker count (0 = NumCPU)")
	verbose  = flag.Bool("v", false, "verbose")
	trace    = flag.Bool("trace", false, "trace solver")
	onlyEntry = flag.String("entry", "", "run only this entry")
	noReplay = flag.Bool("noreplay", false, "skip native replay")
	evidenceOut = flag.String("evidence", "", "evidence file (default <verif>/evidence/<id>.json)")
	cpuprofile  = flag.String("cpuprofile", "", "write a CPU profile")
	replayFile  = flag.String("replay", "", "replay a recorded counterexample natively and exit")
)

func main() {
	flag.Usage = func() {
		fmt.Fprintln(os.Stderr, "usage: gosym [flags] <check.json>")
		flag.PrintDefaults()
	}
	flag.Parse()
	if *replayFile != "" {
		os.Exit(replayOnly(*replayFile))
	}
	if flag.NArg() != 1 {
		flag.Usage()
		os.Exit(2)
	}
	if s := os.Getenv("VERIF_SEED"); s != "" {
		if v, err := strconv.Atoi(s); err == nil {
			*seed = v
		}
	}
	if t := os.Getenv("VERIF_TIER"); t == "quick" || t == "thorough" {
		// explicit flag wins if given
		set := false
		flag.Visit(func(f *flag.Flag) {
			if f.Name == "tier" {
				set = true
			}
		})
		if !set {
			*tier = t
		}
	}
	if r := os.Getenv("VERIF_REPO"); r != "" {
		*repoDir = r
	}
	if *cpuprofile != "" {
		f, err := os.Create(*cpuprofile)
		if err == nil {
			pprof.StartCPUProfile(f)
		}
	}
	code := run(flag.Arg(0))
	if *cpuprofile != "" {
		pprof.StopCPUProfile()
	}
	os.Exit(code)
}

func loadCfg(path string) (*CheckCfg, error) {
	b, err := os.ReadFile(path)
	if err != nil {
		return nil, err
	}
	var c CheckCfg
	dec := json.NewDecoder(strings.NewReader(string(b)))
	dec.DisallowUnknownFields()
	if err := dec.Decode(&c); err != nil {
		return nil, fmt.Errorf("%s: %v", path, err)
	}
	for _, inc := range c.Include {
		ic, err := loadCfg(filepath.Join(*verifDir, inc))
		if err != nil {
			return nil, err
		}
		if c.HarnessFiles == nil {
			c.HarnessFiles = map[string]string{}
		}
		for k, v := range ic.HarnessFiles {
			if _, ok := c.HarnessFiles[k]; !ok {
				c.HarnessFiles[k] = v
			}
		}
		if c.Intercept == nil {
			c.Intercept = map[string]string{}
		}
		for k, v := range ic.Intercept {
			if _, ok := c.Intercept[k]; !ok {
				c.Intercept[k] = v
			}
		}
		c.Roots = append(c.Roots, ic.Roots...)
		c.Assumptions = append(c.Assumptions, ic.Assumptions...)
	}
	return &c, nil
}

func run(cfgPath string) int {
	t0 := time.Now()
	cfg, err := loadCfg(cfgPath)
	if err != nil {
		fmt.Fprintln(os.Stderr, err)
		return 2
	}
	overlay := map[string][]byte{}
	addOverlay := func(repoRel, verifRel string) error {
		b, err := os.ReadFile(filepath.Join(*verifDir, verifRel))
		if err != nil {
			return err
		}
		overlay[filepath.Join(*repoDir, repoRel)] = b
		return nil
	}
	if err := addOverlay("internal/zzverif/verif.go", "harness/verif/verif.go"); err != nil {
		fmt.Fprintln(os.Stderr, err)
		return 2
	}
	for r, v := range cfg.HarnessFiles {
		if err := addOverlay(r, v); err != nil {
			fmt.Fprintln(os.Stderr, err)
			return 2
		}
	}
	patterns := append([]string{cfg.Package, verifPkgPath}, cfg.Roots...)
	for _, ent := range cfg.Entries {
		if ent.Package != "" {
			patterns = append(patterns, ent.Package)
		}
	}
	pcfg := &packages.Config{
		Mode:    packages.LoadAllSyntax,
		Dir:     *repoDir,
		Overlay: overlay,
		Env:     append(os.Environ(), "GOFLAGS=-mod=mod", "GOPROXY=off", "GOSUMDB=off", "GOTOOLCHAIN=local"),
	}
	tl := time.Now()
	initial, err := packages.Load(pcfg, patterns...)
	if err != nil {
		fmt.Fprintln(os.Stderr, "load:", err)
		return 2
	}
	nerr := 0
	packages.Visit(initial, nil, func(p *packages.Package) {
		for _, e := range p.Errors {
			if strings.HasPrefix(p.PkgPath, "github.com/gittuf/gittuf") {
				fmt.Fprintf(os.Stderr, "load error in %s: %v\n", p.PkgPath, e)
				nerr++
			}
		}
	})
	if nerr > 0 {
		fmt.Fprintln(os.Stderr, "the repository (with harness overlay) does not type-check; check is inconclusive")
		return 2
	}
	prog, pkgs := ssautil.AllPackages(initial, ssa.InstantiateGenerics|ssa.SanityCheckFunctions*0)
	_ = pkgs
	loadTime := time.Since(tl)
	var harnessPkg, verifPkg *ssa.Package
	pkgByPath := map[string]*ssa.Package{}
	for _, p := range prog.AllPackages() {
		pkgByPath[p.Pkg.Path()] = p
		switch p.Pkg.Path() {
		case cfg.Package:
			harnessPkg = p
		case verifPkgPath:
			verifPkg = p
		}
	}
	if harnessPkg == nil || verifPkg == nil {
		fmt.Fprintln(os.Stderr, "harness or verif package not loaded")
		return 2
	}
	harnessPkg.Build()
	verifPkg.Build()

	ev := newEvidence(cfg, *tier, *seed)
	ev.LoadS = loadTime.Seconds()
	exit := 0
	inconclusive := false
	var violations []reportedViolation
	var traceSamples []traceSample
	knownSeen := map[string]*interp.Violation{}
	for _, ent := range cfg.Entries {
		if *onlyEntry != "" && ent.Name != *onlyEntry {
			continue
		}
		tc := ent.Tiers[*tier]
		if tc.Skip {
			continue
		}
		entPkg := harnessPkg
		if ent.Package != "" {
			entPkg = pkgByPath[ent.Package]
			if entPkg == nil {
				fmt.Fprintf(os.Stderr, "package %s of entry %s not loaded\n", ent.Package, ent.Name)
				return 2
			}
			entPkg.Build()
		}
		fn := entPkg.Func(ent.Name)
		if fn == nil {
			fmt.Fprintf(os.Stderr, "entry %s not found in %s\n", ent.Name, cfg.Package)
			return 2
		}
		icpt := map[string]string{}
		for k, v := range cfg.Intercept {
			icpt[k] = v
		}
		for k, v := range ent.Intercept {
			icpt[k] = v
		}
		ecfg := &interp.Config{
			Entry:            fn,
			VerifPkg:         verifPkg,
			PerPathPrefixes:  []string{"github.com/gittuf/gittuf"},
			Intercept:        icpt,
			Workers:          *workers,
			Tier:             *tier,
			Bounds:           tc.Bounds,
			Trace:            *trace,
			PanicIsViolation: ent.PanicIsViolation,
		}
		eng := interp.NewEngine(prog, ecfg)
		eng.Ex.Verbose = *verbose
		if tc.MaxPaths > 0 {
			eng.Ex.MaxPaths = tc.MaxPaths
		}
		if tc.StepBudget > 0 {
			eng.Ex.StepBudget = tc.StepBudget
		}
		if tc.TimeoutS > 0 {
			eng.Ex.Deadline = time.Now().Add(time.Duration(tc.TimeoutS) * time.Second)
		}
		te := time.Now()
		if err := eng.Run(); err != nil {
			fmt.Fprintf(os.Stderr, "%s: %v\n", ent.Name, err)
			return 2
		}
		ex := eng.Ex
		d := time.Since(te)
		er := ev.addEntry(ent, tc, ex, d)
		fmt.Fprintf(os.Stderr, "[%s/%s] paths=%d infeasible=%d forks=%d pruned=%d obligations=%d discharged=%d unknown=%d unsupported=%d budget=%d violations=%d solver=%.1fs wall=%.1fs\n",
			cfg.Property, ent.Name, ex.Stats.Paths, ex.Stats.Infeasible, ex.Stats.Forks, ex.Stats.Pruned, ex.Stats.Obligations, ex.Stats.Discharged,
			ex.Stats.Unknown, ex.Stats.Unsupported, ex.Stats.BudgetExceeded, len(ex.Violations), ex.Solver.Time.Seconds(), d.Seconds())
		if ex.Stats.Unknown > 0 || ex.Stats.Unsupported > 0 || ex.Stats.BudgetExceeded > 0 || ex.TimedOut {
			inconclusive = true
			var keys []string
			for k := range ex.Unsupp {
				keys = append(keys, k)
			}
			sort.Strings(keys)
			for _, k := range keys {
				fmt.Fprintf(os.Stderr, "  inconclusive: %s (x%d)\n", k, ex.Unsupp[k])
			}
			if ex.TimedOut {
				fmt.Fprintf(os.Stderr, "  inconclusive: exploration stopped by time/path limit\n")
			}
			if ex.Stats.Unknown > 0 {
				fmt.Fprintf(os.Stderr, "  inconclusive: %d solver answers unknown\n", ex.Stats.Unknown)
			}
		}
		// vacuity
		for _, l := range ent.ReachRequired {
			if ex.Reached[l] == 0 {
				fmt.Fprintf(os.Stderr, "  vacuous: required label %q never reached in %s\n", l, ent.Name)
				er.Vacuous = append(er.Vacuous, l)
				inconclusive = true
			}
		}
		if ex.Stats.Paths == 0 {
			fmt.Fprintf(os.Stderr, "  vacuous: no feasible path in %s\n", ent.Name)
			inconclusive = true
		}
		for id, v := range ex.KnownHits {
			if _, ok := knownSeen[id]; !ok {
				knownSeen[id] = v
			}
		}
		for k := range ex.Violations {
			violations = append(violations, reportedViolation{Entry: ent.Name, V: &ex.Violations[k]})
		}
		for _, s := range ex.Samples {
			if len(traceSamples) < 40 && s.Outcome == "ok" {
				traceSamples = append(traceSamples, traceSample{Entry: ent.Name, Model: s.Model, Reached: s.Reached, Outcome: s.Outcome, Bounds: tc.Bounds, Dir: entryTestDir(cfg, ent.Name)})
			}
		}
	}
	// validate a sample of explored paths against the native implementation
	if !*noReplay && cfg.Replay != nil && !cfg.Replay.Disabled && len(traceSamples) > 0 {
		// one native run per test package directory
		byDir := map[string][]traceSample{}
		var dirs []string
		for _, s := range traceSamples {
			if _, ok := byDir[s.Dir]; !ok {
				dirs = append(dirs, s.Dir)
			}
			byDir[s.Dir] = append(byDir[s.Dir], s)
		}
		total := 0
		for _, d := range dirs {
			agree, diffs, err := nativeTraces(cfg, d, byDir[d])
			if err != nil {
				fmt.Fprintf(os.Stderr, "native trace validation failed to run: %v\n", err)
				inconclusive = true
			}
			total += agree
			for _, df := range diffs {
				fmt.Fprintf(os.Stderr, "ENCODING DISAGREEMENT (trace): %s\n", df)
				inconclusive = true
			}
		}
		ev.Validated = total
		fmt.Fprintf(os.Stderr, "native trace validation: %d of %d sampled paths agree\n", total, len(traceSamples))
	}
	// known findings: print one line per listed finding that was witnessed
	for _, k := range cfg.Known {
		if v, ok := knownSeen[k.ID]; ok {
			fmt.Printf("KNOWN-FINDING: property=%s %s [%s]\n", cfg.Property, k.What, k.ID)
			ev.KnownReproduced = append(ev.KnownReproduced, map[string]any{"id": k.ID, "what": k.What, "model": v.Model})
		}
	}
	// violations: replay natively, then report
	os.MkdirAll(filepath.Join(*verifDir, "evidence", "replay"), 0o755)
	seenLabel := map[string]bool{}
	nrep := 0
	for _, rv := range violations {
		key := rv.Entry + "/" + rv.V.Label
		if seenLabel[key] {
			continue
		}
		seenLabel[key] = true
		path := filepath.Join(*verifDir, "evidence", "replay", fmt.Sprintf("%s-%d.json", cfg.Property, nrep))
		nrep++
		rf := map[string]any{"property": cfg.Property, "entry": rv.Entry, "label": rv.V.Label, "model": rv.V.Model, "tier": *tier,
			"decisions": rv.V.Decisions, "panic": rv.V.Panic, "stack": rv.V.Stack, "check": cfgPath}
		if tc, ok := entryTier(cfg, rv.Entry, *tier); ok {
			rf["bounds"] = tc.Bounds
		}
		b, _ := json.MarshalIndent(rf, "", " ")
		os.WriteFile(path, b, 0o644)
		status := "not-replayed"
		if !*noReplay && cfg.Replay != nil && !cfg.Replay.Disabled {
			ok, out, err := nativeReplay(cfg, rv.Entry, path, rv.V.Label)
			switch {
			case err != nil:
				status = "replay-error: " + err.Error()
				fmt.Fprintf(os.Stderr, "replay of %s failed to run: %v\n%s\n", path, err, tail(out, 40))
				inconclusive = true
			case ok:
				status = "reproduced"
			default:
				status = "not-reproduced"
				fmt.Fprintf(os.Stderr, "ENCODING DISAGREEMENT: counterexample %s (%s) does not reproduce natively\n%s\n", path, rv.V.Label, tail(out, 40))
				inconclusive = true
			}
		}
		ev.Violations = append(ev.Violations, map[string]any{"entry": rv.Entry, "label": rv.V.Label, "model": rv.V.Model, "replay": path, "status": status, "panic": rv.V.Panic})
		if status == "reproduced" || status == "not-replayed" {
			fmt.Printf("VIOLATION property=%s replay=%s\n", cfg.Property, path)
			fmt.Fprintf(os.Stderr, "  violated: %s in %s  model=%v %s\n", rv.V.Label, rv.Entry, rv.V.Model, rv.V.Panic)
			for _, fr := range rv.V.Stack {
				fmt.Fprintf(os.Stderr, "      at %s\n", fr)
			}
			exit = 1
		}
	}
	ev.NViolations = 0
	for _, v := range ev.Violations {
		if s := v["status"]; s == "reproduced" || s == "not-replayed" {
			ev.NViolations++
		}
	}
	ev.Inconclusive = inconclusive
	ev.Wall = time.Since(t0).Seconds()
	out := *evidenceOut
	if out == "" {
		out = filepath.Join(*verifDir, "evidence", cfg.Property+".json")
	}
	if err := ev.write(out); err != nil {
		fmt.Fprintln(os.Stderr, err)
		return 2
	}
	if exit == 0 && inconclusive {
		fmt.Fprintf(os.Stderr, "check %s is INCONCLUSIVE (not a pass)\n", cfg.Property)
		return 2
	}
	if exit == 0 {
		fmt.Fprintf(os.Stderr, "check %s: all %d obligations discharged on %d paths (%.1fs)\n", cfg.Property, ev.totalObl(), ev.totalPaths(), ev.Wall)
	}
	return exit
}

func entryTestDir(cfg *CheckCfg, name string) string {
	for _, e := range cfg.Entries {
		if e.Name == name && e.TestPkgDir != "" {
			return e.TestPkgDir
		}
	}
	if cfg.Replay != nil {
		return cfg.Replay.TestPkgDir
	}
	return ""
}

func entryTier(cfg *CheckCfg, name, tier string) (TierCfg, bool) {
	for _, e := range cfg.Entries {
		if e.Name == name {
			tc, ok := e.Tiers[tier]
			return tc, ok
		}
	}
	return TierCfg{}, false
}

type reportedViolation struct {
	Entry string
	V     *interp.Violation
}

func tail(s string, n int) string {
	lines := strings.Split(strings.TrimRight(s, "\n"), "\n")
	if len(lines) > n {
		lines = lines[len(lines)-n:]
	}
	return strings.Join(lines, "\n")
}

// replayOnly re-runs a recorded counterexample natively.
func replayOnly(path string) int {
	b, err := os.ReadFile(path)
	if err != nil {
		fmt.Fprintln(os.Stderr, err)
		return 2
	}
	var rf struct {
		Property string `json:"property"`
		Entry    string `json:"entry"`
		Label    string `json:"label"`
		Check    string `json:"check"`
	}
	if err := json.Unmarshal(b, &rf); err != nil {
		fmt.Fprintln(os.Stderr, err)
		return 2
	}
	cfgPath := rf.Check
	if !filepath.IsAbs(cfgPath) {
		cfgPath = filepath.Join(*verifDir, cfgPath)
	}
	cfg, err := loadCfg(cfgPath)
	if err != nil {
		fmt.Fprintln(os.Stderr, err)
		return 2
	}
	if cfg.Replay == nil || cfg.Replay.Disabled {
		fmt.Fprintln(os.Stderr, "native replay is not available for this check")
		return 2
	}
	abs, _ := filepath.Abs(path)
	ok, out, err := nativeReplay(cfg, rf.Entry, abs, rf.Label)
	fmt.Println(tail(out, 30))
	if err != nil {
		fmt.Fprintln(os.Stderr, "replay failed to run:", err)
		return 2
	}
	if ok {
		fmt.Printf("VIOLATION property=%s replay=%s\n", rf.Property, abs)
		return 1
	}
	fmt.Println("the recorded assertion does not fail natively on this tree")
	return 0
}
