// Copyright 2013 The Go Authors. All rights reserved.
// Use of this source code is governed by a BSD-style
// license that can be found in the LICENSE file.

package interp

// Insertion-ordered hashtable used for every Go map, so that iteration
// order is deterministic (a requirement of exploration by re-execution).

import (
	"go/types"
)

type hashable interface {
	hash(t types.Type) int
	eq(t types.Type, x any) bool
}

type entry struct {
	key     value
	value   value
	deleted bool
}

type hashmap struct {
	keyType types.Type
	builtin bool
	idx     map[value]int // builtin key types: key -> index in ents
	table   map[int][]int // other key types: hash -> indices in ents
	ents    []*entry
	length  int
	hasSym  bool // some key contains symbolic parts: lookups scan linearly (see frame.mapFind)
}

// makeMap returns an empty initialized map of key type kt.
func makeMap(kt types.Type, reserve int64) value {
	m := &hashmap{keyType: kt, builtin: usesBuiltinMap(kt)}
	if m.builtin {
		m.idx = make(map[value]int)
	} else {
		m.table = make(map[int][]int)
	}
	return m
}

func (m *hashmap) find(k value) int {
	if m == nil {
		return -1
	}
	if m.builtin {
		if i, ok := m.idx[k]; ok {
			return i
		}
		return -1
	}
	h := k.(hashable).hash(m.keyType)
	for _, i := range m.table[h] {
		if e := m.ents[i]; !e.deleted && k.(hashable).eq(m.keyType, e.key) {
			return i
		}
	}
	return -1
}

// delete removes the association for key k, if any.
func (m *hashmap) delete(k value) {
	i := m.find(k)
	if i < 0 {
		return
	}
	m.ents[i].deleted = true
	m.length--
	if m.builtin {
		delete(m.idx, k)
	}
}

// lookup returns the value associated with key k, if present, or
// value(nil) otherwise.
func (m *hashmap) lookup(k value) value {
	i := m.find(k)
	if i < 0 {
		return nil
	}
	return m.ents[i].value
}

// insert updates the map to associate key k with value v.
func (m *hashmap) insert(k value, v value) {
	if i := m.find(k); i >= 0 {
		m.ents[i].value = v
		return
	}
	m.ents = append(m.ents, &entry{key: k, value: v})
	i := len(m.ents) - 1
	if m.builtin {
		m.idx[k] = i
	} else {
		h := k.(hashable).hash(m.keyType)
		m.table[h] = append(m.table[h], i)
	}
	m.length++
}

// len returns the number of key/value associations in the map.
func (m *hashmap) len() int {
	if m != nil {
		return m.length
	}
	return 0
}

// hashmapIter iterates in insertion order over the entries present when the
// iteration started or added during it.
type hashmapIter struct {
	m *hashmap
	i int
}

func (it *hashmapIter) next() tuple {
	if it.m != nil {
		for it.i < len(it.m.ents) {
			e := it.m.ents[it.i]
			it.i++
			if !e.deleted {
				return []value{true, e.key, e.value}
			}
		}
	}
	return []value{false, nil, nil}
}

// appendSym adds an entry whose key has symbolic parts (not hashed).
func (m *hashmap) appendSym(k, v value) {
	m.ents = append(m.ents, &entry{key: k, value: v})
	m.hasSym = true
	m.length++
}

// cloneShallow copies the table structure with the given element cloner.
func (m *hashmap) cloneWith(ck, cv func(value) value) *hashmap {
	r := makeMap(m.keyType, 0).(*hashmap)
	for _, e := range m.ents {
		if e.deleted {
			continue
		}
		k := ck(e.key)
		if containsSym(k) {
			r.appendSym(k, cv(e.value))
		} else {
			r.insert(k, cv(e.value))
		}
	}
	return r
}
