package interp

// One long-lived SMT solver process per worker, spoken to in SMT-LIB2 over a
// pipe.  Any "(error" line, "unknown" or timeout is reported as inconclusive;
// it is never read as sat or unsat.

import (
	"bufio"
	"fmt"
	"io"
	"os/exec"
	"strings"
	"time"
)

type SolverStats struct {
	Feasibility int           // feasibility queries (branch sides, concretisation)
	Validity    int           // assertion queries
	Other       int           // model queries etc.
	Time        time.Duration // wall time spent waiting for the solver
	MaxQuery    time.Duration
}

type Solver struct {
	cmd    *exec.Cmd
	in     io.WriteCloser
	w      *bufio.Writer
	out    *bufio.Reader
	names  map[*Term]string // terms defined in the current session
	vars   map[string]int   // declared variables (name -> width)
	nextID int
	Stats  SolverStats
	Log    io.Writer // optional transcript
	sawError bool
	argv   []string
}

var SolverArgv = []string{"z3", "-in", "-t:30000"}

func NewSolver() (*Solver, error) {
	s := &Solver{argv: SolverArgv}
	if err := s.start(); err != nil {
		return nil, err
	}
	return s, nil
}

func (s *Solver) start() error {
	cmd := exec.Command(s.argv[0], s.argv[1:]...)
	in, err := cmd.StdinPipe()
	if err != nil {
		return err
	}
	out, err := cmd.StdoutPipe()
	if err != nil {
		return err
	}
	cmd.Stderr = cmd.Stdout
	if err := cmd.Start(); err != nil {
		return err
	}
	s.cmd, s.in, s.out = cmd, in, bufio.NewReader(out)
	s.w = bufio.NewWriterSize(in, 1<<16)
	s.names = map[*Term]string{}
	s.vars = map[string]int{}
	s.nextID = 0
	return nil
}

func (s *Solver) Close() {
	if s.cmd != nil {
		s.in.Close()
		s.cmd.Process.Kill()
		s.cmd.Wait()
		s.cmd = nil
	}
}

func (s *Solver) send(line string) {
	if s.Log != nil {
		fmt.Fprintln(s.Log, line)
	}
	s.w.WriteString(line)
	s.w.WriteByte('\n')
}

// Reset clears all assertions and definitions (start of a new path).
func (s *Solver) Reset() {
	s.send("(reset)")
	s.names = map[*Term]string{}
	s.vars = map[string]int{}
	s.nextID = 0
}

// define makes sure every non-trivial sub-term of t has a name in the
// solver, and returns the text by which t can be referenced.
func (s *Solver) define(t *Term) string {
	if n, ok := s.names[t]; ok {
		return n
	}
	switch t.op {
	case "const":
		return t.String()
	case "var":
		if _, ok := s.vars[t.name]; !ok {
			s.vars[t.name] = t.w
			s.send(fmt.Sprintf("(declare-const %s %s)", t.name, sortOf(t.w)))
		}
		return t.name
	}
	// iterative post-order would be safer for very deep terms; depth here
	// is bounded by the length of straight-line arithmetic on one path.
	for _, a := range t.args {
		s.define(a)
	}
	var sb strings.Builder
	name := fmt.Sprintf("t!%d", s.nextID)
	s.nextID++
	fmt.Fprintf(&sb, "(define-fun %s () %s ", name, sortOf(t.w))
	// print one level, children by name
	switch t.op {
	case "extract":
		fmt.Fprintf(&sb, "((_ extract %d 0) %s)", t.val, s.define(t.args[0]))
	case "zext":
		fmt.Fprintf(&sb, "((_ zero_extend %d) %s)", t.val, s.define(t.args[0]))
	case "sext":
		fmt.Fprintf(&sb, "((_ sign_extend %d) %s)", t.val, s.define(t.args[0]))
	default:
		sb.WriteString("(" + t.op)
		for _, a := range t.args {
			sb.WriteString(" " + s.define(a))
		}
		sb.WriteString(")")
	}
	sb.WriteString(")")
	s.send(sb.String())
	s.names[t] = name
	return name
}

// Assert adds t to the permanent (path) constraints.
func (s *Solver) Assert(t *Term) {
	if t.isConst() && t.val == 1 {
		return
	}
	n := s.define(t)
	s.send("(assert " + n + ")")
}

type SatResult int

const (
	Unsat SatResult = iota
	Sat
	Unknown
)

func (r SatResult) String() string {
	return [...]string{"unsat", "sat", "unknown"}[r]
}

func (s *Solver) readLine() (string, error) {
	s.w.Flush()
	line, err := s.out.ReadString('\n')
	return strings.TrimSpace(line), err
}

func (s *Solver) checkSat() SatResult {
	t0 := time.Now()
	s.send("(check-sat)")
	res := Unknown
	for {
		line, err := s.readLine()
		if err != nil {
			// solver died: restart lazily; report unknown
			s.Close()
			s.start()
			break
		}
		if line == "" {
			continue
		}
		if line == "sat" {
			res = Sat
			break
		}
		if line == "unsat" {
			res = Unsat
			break
		}
		if line == "unknown" || line == "timeout" {
			res = Unknown
			break
		}
		if strings.HasPrefix(line, "(error") {
			// keep reading until the check-sat answer; result is
			// inconclusive whatever it says
			if s.Log != nil {
				fmt.Fprintln(s.Log, "; "+line)
			}
			s.sawError = true
			continue
		}
	}
	if s.sawError {
		res = Unknown
		s.sawError = false
	}
	d := time.Since(t0)
	s.Stats.Time += d
	if d > s.Stats.MaxQuery {
		s.Stats.MaxQuery = d
	}
	return res
}

// CheckWith asks whether the path constraints together with extra are
// satisfiable, without keeping extra.
func (s *Solver) CheckWith(extra *Term) SatResult {
	if extra.isConst() {
		if extra.val == 0 {
			return Unsat
		}
		return s.check()
	}
	n := s.define(extra)
	s.send("(push 1)")
	s.send("(assert " + n + ")")
	r := s.checkSat()
	s.send("(pop 1)")
	return r
}

func (s *Solver) check() SatResult { return s.checkSat() }

// ModelWith returns values for the given terms in a model of the path
// constraints and extra.
func (s *Solver) ModelWith(extra *Term, vars []*Term) (map[string]uint64, SatResult) {
	n := s.define(extra)
	names := make([]string, 0, len(vars))
	for _, v := range vars {
		names = append(names, s.define(v))
	}
	s.send("(push 1)")
	s.send("(assert " + n + ")")
	r := s.checkSat()
	var m map[string]uint64
	if r == Sat {
		m = map[string]uint64{}
		if len(names) > 0 {
			vals, ok := s.getValues(names)
			if !ok {
				r = Unknown
			} else {
				for i, nm := range names {
					key := nm
					if vars[i].op == "var" {
						key = vars[i].name
					}
					m[key] = vals[i]
				}
			}
		}
	}
	s.send("(pop 1)")
	return m, r
}

// getValues issues one get-value for all names and parses the
// (possibly multi-line) answer.
func (s *Solver) getValues(names []string) ([]uint64, bool) {
	s.send("(get-value (" + strings.Join(names, " ") + "))")
	var sb strings.Builder
	depth := 0
	started := false
	for {
		line, err := s.readLine()
		if err != nil {
			return nil, false
		}
		if strings.HasPrefix(line, "(error") {
			s.sawError = true
			return nil, false
		}
		sb.WriteString(line)
		sb.WriteByte(' ')
		for _, c := range line {
			if c == '(' {
				depth++
				started = true
			} else if c == ')' {
				depth--
			}
		}
		if started && depth <= 0 {
			break
		}
	}
	text := sb.String()
	// tokens: pairs "(name value)"; values are #x.. #b.. true false or (_ bvN w)
	vals := make([]uint64, 0, len(names))
	i := strings.Index(text, "(")
	text = text[i+1:]
	for len(vals) < len(names) {
		j := strings.Index(text, "(")
		if j < 0 {
			return nil, false
		}
		text = text[j+1:]
		// skip the name
		k := strings.IndexAny(text, " \t")
		if k < 0 {
			return nil, false
		}
		text = strings.TrimLeft(text[k:], " \t")
		var v uint64
		switch {
		case strings.HasPrefix(text, "#x"):
			e := strings.IndexAny(text, ") ")
			if _, err := fmt.Sscanf(text[2:e], "%x", &v); err != nil {
				return nil, false
			}
			text = text[e:]
		case strings.HasPrefix(text, "#b"):
			e := strings.IndexAny(text, ") ")
			for _, c := range text[2:e] {
				v = v<<1 | uint64(c-'0')
			}
			text = text[e:]
		case strings.HasPrefix(text, "true"):
			v = 1
			text = text[4:]
		case strings.HasPrefix(text, "false"):
			v = 0
			text = text[5:]
		case strings.HasPrefix(text, "(_ bv"):
			var w int
			if _, err := fmt.Sscanf(text, "(_ bv%d %d)", &v, &w); err != nil {
				return nil, false
			}
			e := strings.Index(text, ")")
			text = text[e+1:]
		default:
			return nil, false
		}
		e := strings.Index(text, ")")
		if e < 0 {
			return nil, false
		}
		text = text[e+1:]
		vals = append(vals, v)
	}
	return vals, true
}

func parseValue(line string) (uint64, bool) {
	line = strings.TrimSpace(line)
	line = strings.TrimSuffix(strings.TrimSuffix(line, ")"), ")")
	i := strings.LastIndexAny(line, " \t")
	if i < 0 {
		return 0, false
	}
	tok := line[i+1:]
	switch {
	case tok == "true":
		return 1, true
	case tok == "false":
		return 0, true
	case strings.HasPrefix(tok, "#x"):
		var v uint64
		_, err := fmt.Sscanf(tok[2:], "%x", &v)
		return v, err == nil
	case strings.HasPrefix(tok, "#b"):
		var v uint64
		for _, c := range tok[2:] {
			v = v<<1 | uint64(c-'0')
		}
		return v, true
	}
	// (_ bvN w) form: "(_ bv5 8" after trimming
	if j := strings.Index(line, "(_ bv"); j >= 0 {
		var v uint64
		var w int
		if _, err := fmt.Sscanf(line[j:], "(_ bv%d %d", &v, &w); err == nil {
			return v, true
		}
	}
	return 0, false
}
