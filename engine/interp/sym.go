package interp

// Symbolic terms and symbolic scalar values.
//
// A Term is an immutable SMT-LIB2 expression DAG over bit-vectors and
// Booleans.  Constructors fold constants and apply a few local
// simplifications so that purely concrete sub-computations never reach the
// solver.

import (
	"fmt"
	"go/token"
	"go/types"
	"strings"
)

type Term struct {
	op   string  // SMT-LIB operator, "const", "var", "extract", "zext", "sext"
	args []*Term // operands
	w    int     // bit width; 0 = Bool
	val  uint64  // for const (Bool: 0/1); for extract: hi<<8|lo ; for ext: added bits
	name string  // for var
	h    uint64  // structural hash
}

// fin completes a freshly built term (structural hash).
func fin(t *Term) *Term {
	h := uint64(14695981039346656037)
	mix := func(x uint64) {
		h ^= x
		h *= 1099511628211
	}
	for i := 0; i < len(t.op); i++ {
		mix(uint64(t.op[i]))
	}
	mix(uint64(t.w) + 0x9e3779b97f4a7c15)
	mix(t.val)
	for i := 0; i < len(t.name); i++ {
		mix(uint64(t.name[i]))
	}
	for _, a := range t.args {
		mix(a.h)
	}
	t.h = h
	return t
}

// sameTerm reports structural equality.
func sameTerm(a, b *Term) bool {
	if a == b {
		return true
	}
	if a.h != b.h || a.op != b.op || a.w != b.w || a.val != b.val || a.name != b.name || len(a.args) != len(b.args) {
		return false
	}
	for i := range a.args {
		if !sameTerm(a.args[i], b.args[i]) {
			return false
		}
	}
	return true
}

// evalTerm evaluates t under an assignment of the variables (missing
// variables read as 0).  Bool results are 0/1.
func evalTerm(t *Term, env map[string]uint64, memo map[*Term]uint64) uint64 {
	if t.op == "const" {
		return t.val
	}
	if v, ok := memo[t]; ok {
		return v
	}
	var r uint64
	a := func(i int) uint64 { return evalTerm(t.args[i], env, memo) }
	w := t.w
	switch t.op {
	case "var":
		r = env[t.name] & mask1(t.w)
	case "not":
		r = 1 - a(0)
	case "and":
		if a(0) == 1 && a(1) == 1 {
			r = 1
		}
	case "or":
		if a(0) == 1 || a(1) == 1 {
			r = 1
		}
	case "ite":
		if a(0) == 1 {
			r = a(1)
		} else {
			r = a(2)
		}
	case "=":
		if a(0) == a(1) {
			r = 1
		}
	case "extract":
		r = a(0) & mask(w)
	case "zext":
		r = a(0)
	case "sext":
		r = uint64(signExt(a(0), t.args[0].w)) & mask(w)
	case "bvneg":
		r = (-a(0)) & mask(w)
	case "bvnot":
		r = (^a(0)) & mask(w)
	case "bvult", "bvule", "bvugt", "bvuge", "bvslt", "bvsle", "bvsgt", "bvsge":
		c := mkCmp(t.op, mkBV(t.args[0].w, a(0)), mkBV(t.args[1].w, a(1)))
		r = c.val
	default:
		x, y := a(0), a(1)
		aw := t.args[0].w
		switch t.op {
		case "bvudiv":
			if y == 0 {
				r = mask(aw)
			} else {
				r = x / y
			}
		case "bvurem":
			if y == 0 {
				r = x
			} else {
				r = x % y
			}
		case "bvsdiv":
			if y == 0 {
				if signExt(x, aw) < 0 {
					r = 1
				} else {
					r = mask(aw)
				}
			} else {
				r = mkBin(t.op, mkBV(aw, x), mkBV(aw, y)).val
			}
		case "bvsrem":
			if y == 0 {
				r = x
			} else {
				r = mkBin(t.op, mkBV(aw, x), mkBV(aw, y)).val
			}
		default:
			c := mkBin(t.op, mkBV(aw, x), mkBV(aw, y))
			if !c.isConst() {
				panic("evalTerm: cannot evaluate " + t.op)
			}
			r = c.val
		}
	}
	memo[t] = r
	return r
}

func mask1(w int) uint64 {
	if w == 0 {
		return 1
	}
	return mask(w)
}

func (t *Term) isConst() bool { return t.op == "const" }

func mask(w int) uint64 {
	if w >= 64 {
		return ^uint64(0)
	}
	return (uint64(1) << uint(w)) - 1
}

var (
	tTrue  = fin(&Term{op: "const", w: 0, val: 1})
	tFalse = fin(&Term{op: "const", w: 0, val: 0})
)

func mkBoolConst(b bool) *Term {
	if b {
		return tTrue
	}
	return tFalse
}

func mkBV(w int, v uint64) *Term { return fin(&Term{op: "const", w: w, val: v & mask(w)}) }

func mkVar(name string, w int) *Term { return fin(&Term{op: "var", w: w, name: name}) }

func signExt(v uint64, w int) int64 {
	if w >= 64 {
		return int64(v)
	}
	if v&(1<<uint(w-1)) != 0 {
		return int64(v | ^mask(w))
	}
	return int64(v)
}

func mkNot(a *Term) *Term {
	if a.isConst() {
		return mkBoolConst(a.val == 0)
	}
	if a.op == "not" {
		return a.args[0]
	}
	return fin(&Term{op: "not", args: []*Term{a}})
}

func mkAnd(a, b *Term) *Term {
	if a.isConst() {
		if a.val == 0 {
			return tFalse
		}
		return b
	}
	if b.isConst() {
		if b.val == 0 {
			return tFalse
		}
		return a
	}
	if a == b {
		return a
	}
	return fin(&Term{op: "and", args: []*Term{a, b}})
}

func mkOr(a, b *Term) *Term {
	if a.isConst() {
		if a.val == 1 {
			return tTrue
		}
		return b
	}
	if b.isConst() {
		if b.val == 1 {
			return tTrue
		}
		return a
	}
	if a == b {
		return a
	}
	return fin(&Term{op: "or", args: []*Term{a, b}})
}

func mkIte(c, a, b *Term) *Term {
	if c.isConst() {
		if c.val == 1 {
			return a
		}
		return b
	}
	if a == b {
		return a
	}
	if a.w == 0 && a.isConst() && b.isConst() {
		if a.val == 1 && b.val == 0 {
			return c
		}
		if a.val == 0 && b.val == 1 {
			return mkNot(c)
		}
	}
	if a.isConst() && b.isConst() && a.val == b.val {
		return a
	}
	return fin(&Term{op: "ite", args: []*Term{c, a, b}, w: a.w})
}

func mkEq(a, b *Term) *Term {
	if a.w != b.w {
		panic(fmt.Sprintf("mkEq width mismatch %d %d", a.w, b.w))
	}
	if a.isConst() && b.isConst() {
		return mkBoolConst(a.val == b.val)
	}
	if a == b {
		return tTrue
	}
	if a.w == 0 {
		if a.isConst() {
			if a.val == 1 {
				return b
			}
			return mkNot(b)
		}
		if b.isConst() {
			if b.val == 1 {
				return a
			}
			return mkNot(a)
		}
	}
	// (ite c k1 k2) == k  with constants folds to c / not c / false
	if a.isConst() {
		a, b = b, a
	}
	if b.isConst() && a.op == "ite" && a.args[1].isConst() && a.args[2].isConst() {
		e1 := a.args[1].val == b.val
		e2 := a.args[2].val == b.val
		switch {
		case e1 && e2:
			return tTrue
		case e1:
			return a.args[0]
		case e2:
			return mkNot(a.args[0])
		default:
			return tFalse
		}
	}
	return fin(&Term{op: "=", args: []*Term{a, b}})
}

// mkBin builds a bit-vector binary operation (result width = operand width).
func mkBin(op string, a, b *Term) *Term {
	if a.w != b.w {
		panic(fmt.Sprintf("mkBin %s width mismatch %d %d", op, a.w, b.w))
	}
	w := a.w
	if a.isConst() && b.isConst() {
		x, y := a.val, b.val
		switch op {
		case "bvadd":
			return mkBV(w, x+y)
		case "bvsub":
			return mkBV(w, x-y)
		case "bvmul":
			return mkBV(w, x*y)
		case "bvand":
			return mkBV(w, x&y)
		case "bvor":
			return mkBV(w, x|y)
		case "bvxor":
			return mkBV(w, x^y)
		case "bvshl":
			if y >= uint64(w) {
				return mkBV(w, 0)
			}
			return mkBV(w, x<<y)
		case "bvlshr":
			if y >= uint64(w) {
				return mkBV(w, 0)
			}
			return mkBV(w, x>>y)
		case "bvashr":
			sx := signExt(x, w)
			if y >= uint64(w) {
				y = uint64(w - 1)
			}
			return mkBV(w, uint64(sx>>y))
		case "bvudiv":
			if y != 0 {
				return mkBV(w, x/y)
			}
		case "bvurem":
			if y != 0 {
				return mkBV(w, x%y)
			}
		case "bvsdiv":
			if y != 0 {
				sx, sy := signExt(x, w), signExt(y, w)
				if !(sy == -1) {
					return mkBV(w, uint64(sx/sy))
				}
				return mkBV(w, uint64(-sx))
			}
		case "bvsrem":
			if y != 0 {
				sx, sy := signExt(x, w), signExt(y, w)
				if sy == -1 {
					return mkBV(w, 0)
				}
				return mkBV(w, uint64(sx%sy))
			}
		}
	}
	// identities
	switch op {
	case "bvadd", "bvor", "bvxor":
		if a.isConst() && a.val == 0 {
			return b
		}
		if b.isConst() && b.val == 0 {
			return a
		}
	case "bvsub", "bvshl", "bvlshr", "bvashr":
		if b.isConst() && b.val == 0 {
			return a
		}
	case "bvand":
		if (a.isConst() && a.val == 0) || (b.isConst() && b.val == 0) {
			return mkBV(w, 0)
		}
		if a.isConst() && a.val == mask(w) {
			return b
		}
		if b.isConst() && b.val == mask(w) {
			return a
		}
	case "bvmul":
		if (a.isConst() && a.val == 0) || (b.isConst() && b.val == 0) {
			return mkBV(w, 0)
		}
		if a.isConst() && a.val == 1 {
			return b
		}
		if b.isConst() && b.val == 1 {
			return a
		}
	}
	return fin(&Term{op: op, args: []*Term{a, b}, w: w})
}

// mkCmp builds a bit-vector comparison (Bool result).
func mkCmp(op string, a, b *Term) *Term {
	if a.w != b.w {
		panic(fmt.Sprintf("mkCmp %s width mismatch %d %d", op, a.w, b.w))
	}
	if a.isConst() && b.isConst() {
		w := a.w
		switch op {
		case "bvult":
			return mkBoolConst(a.val < b.val)
		case "bvule":
			return mkBoolConst(a.val <= b.val)
		case "bvugt":
			return mkBoolConst(a.val > b.val)
		case "bvuge":
			return mkBoolConst(a.val >= b.val)
		case "bvslt":
			return mkBoolConst(signExt(a.val, w) < signExt(b.val, w))
		case "bvsle":
			return mkBoolConst(signExt(a.val, w) <= signExt(b.val, w))
		case "bvsgt":
			return mkBoolConst(signExt(a.val, w) > signExt(b.val, w))
		case "bvsge":
			return mkBoolConst(signExt(a.val, w) >= signExt(b.val, w))
		}
	}
	// cheap unsigned interval reasoning (decides most bounds checks)
	switch op {
	case "bvult", "bvule", "bvugt", "bvuge":
		alo, ahi := uRange(a, 6)
		blo, bhi := uRange(b, 6)
		switch op {
		case "bvult":
			if ahi < blo {
				return tTrue
			}
			if alo >= bhi {
				return tFalse
			}
		case "bvule":
			if ahi <= blo {
				return tTrue
			}
			if alo > bhi {
				return tFalse
			}
		case "bvugt":
			if alo > bhi {
				return tTrue
			}
			if ahi <= blo {
				return tFalse
			}
		case "bvuge":
			if alo >= bhi {
				return tTrue
			}
			if ahi < blo {
				return tFalse
			}
		}
	}
	return fin(&Term{op: op, args: []*Term{a, b}})
}

// uRange returns a sound unsigned interval for t (depth-limited).
func uRange(t *Term, depth int) (uint64, uint64) {
	if t.isConst() {
		return t.val, t.val
	}
	full := mask(t.w)
	if depth == 0 || t.w == 0 {
		return 0, full
	}
	switch t.op {
	case "zext":
		return uRange(t.args[0], depth-1)
	case "extract":
		lo, hi := uRange(t.args[0], depth-1)
		if hi <= full {
			return lo, hi
		}
	case "bvlshr":
		if t.args[1].isConst() && t.args[1].val < 64 {
			lo, hi := uRange(t.args[0], depth-1)
			return lo >> t.args[1].val, hi >> t.args[1].val
		}
	case "bvand":
		_, h0 := uRange(t.args[0], depth-1)
		_, h1 := uRange(t.args[1], depth-1)
		if h1 < h0 {
			h0 = h1
		}
		return 0, h0
	case "ite":
		l0, h0 := uRange(t.args[1], depth-1)
		l1, h1 := uRange(t.args[2], depth-1)
		if l1 < l0 {
			l0 = l1
		}
		if h1 > h0 {
			h0 = h1
		}
		return l0, h0
	case "bvurem":
		if t.args[1].isConst() && t.args[1].val > 0 {
			return 0, t.args[1].val - 1
		}
	}
	return 0, full
}

func mkNeg(a *Term) *Term {
	if a.isConst() {
		return mkBV(a.w, -a.val)
	}
	return fin(&Term{op: "bvneg", args: []*Term{a}, w: a.w})
}

func mkBVNot(a *Term) *Term {
	if a.isConst() {
		return mkBV(a.w, ^a.val)
	}
	return fin(&Term{op: "bvnot", args: []*Term{a}, w: a.w})
}

// mkResize converts a bit-vector to width w (truncate, or extend by sign).
func mkResize(a *Term, w int, signed bool) *Term {
	if a.w == w {
		return a
	}
	if a.isConst() {
		if signed {
			return mkBV(w, uint64(signExt(a.val, a.w)))
		}
		return mkBV(w, a.val)
	}
	if w < a.w {
		return fin(&Term{op: "extract", args: []*Term{a}, w: w, val: uint64(w - 1)})
	}
	op := "zext"
	if signed {
		op = "sext"
	}
	return fin(&Term{op: op, args: []*Term{a}, w: w, val: uint64(w - a.w)})
}

func (t *Term) String() string {
	var sb strings.Builder
	t.write(&sb, nil)
	return sb.String()
}

// write prints t; if names != nil, sub-terms present in names are printed by
// their defined name.
func (t *Term) write(sb *strings.Builder, names map[*Term]string) {
	if names != nil {
		if n, ok := names[t]; ok {
			sb.WriteString(n)
			return
		}
	}
	switch t.op {
	case "const":
		if t.w == 0 {
			if t.val == 1 {
				sb.WriteString("true")
			} else {
				sb.WriteString("false")
			}
		} else {
			fmt.Fprintf(sb, "(_ bv%d %d)", t.val, t.w)
		}
	case "var":
		sb.WriteString(t.name)
	case "extract":
		fmt.Fprintf(sb, "((_ extract %d 0) ", t.val)
		t.args[0].write(sb, names)
		sb.WriteString(")")
	case "zext":
		fmt.Fprintf(sb, "((_ zero_extend %d) ", t.val)
		t.args[0].write(sb, names)
		sb.WriteString(")")
	case "sext":
		fmt.Fprintf(sb, "((_ sign_extend %d) ", t.val)
		t.args[0].write(sb, names)
		sb.WriteString(")")
	default:
		sb.WriteString("(")
		sb.WriteString(t.op)
		for _, a := range t.args {
			sb.WriteString(" ")
			a.write(sb, names)
		}
		sb.WriteString(")")
	}
}

func sortOf(w int) string {
	if w == 0 {
		return "Bool"
	}
	return fmt.Sprintf("(_ BitVec %d)", w)
}

// ---------------------------------------------------------------------------
// Symbolic scalar values as they appear in the interpreter's value universe.

// symInt is a symbolic integer of Go basic kind k.
type symInt struct {
	k types.BasicKind
	t *Term
}

// symBool is a symbolic Go bool.
type symBool struct {
	t *Term
}

func kindWidth(k types.BasicKind) int {
	switch k {
	case types.Int8, types.Uint8:
		return 8
	case types.Int16, types.Uint16:
		return 16
	case types.Int32, types.Uint32:
		return 32
	case types.Int, types.Int64, types.Uint, types.Uint64, types.Uintptr:
		return 64
	}
	panic(fmt.Sprintf("kindWidth: %v", k))
}

func kindSigned(k types.BasicKind) bool {
	switch k {
	case types.Int, types.Int8, types.Int16, types.Int32, types.Int64:
		return true
	}
	return false
}

// kindOf returns the basic kind of a concrete integer value.
func kindOf(x value) (types.BasicKind, bool) {
	switch x.(type) {
	case int:
		return types.Int, true
	case int8:
		return types.Int8, true
	case int16:
		return types.Int16, true
	case int32:
		return types.Int32, true
	case int64:
		return types.Int64, true
	case uint:
		return types.Uint, true
	case uint8:
		return types.Uint8, true
	case uint16:
		return types.Uint16, true
	case uint32:
		return types.Uint32, true
	case uint64:
		return types.Uint64, true
	case uintptr:
		return types.Uintptr, true
	}
	return 0, false
}

// mkConcrete builds the concrete Go value of kind k with bits v.
func mkConcrete(k types.BasicKind, v uint64) value {
	switch k {
	case types.Int:
		return int(v)
	case types.Int8:
		return int8(v)
	case types.Int16:
		return int16(v)
	case types.Int32:
		return int32(v)
	case types.Int64:
		return int64(v)
	case types.Uint:
		return uint(v)
	case types.Uint8:
		return uint8(v)
	case types.Uint16:
		return uint16(v)
	case types.Uint32:
		return uint32(v)
	case types.Uint64:
		return uint64(v)
	case types.Uintptr:
		return uintptr(v)
	}
	panic("mkConcrete")
}

// termOf returns the term for an integer value (concrete or symbolic).
func termOf(x value) (*Term, types.BasicKind) {
	switch x := x.(type) {
	case symInt:
		return x.t, x.k
	}
	k, ok := kindOf(x)
	if !ok {
		panic(fmt.Sprintf("termOf: not an integer: %T", x))
	}
	return mkBV(kindWidth(k), uint64(asInt64(x))), k
}

func boolTerm(x value) *Term {
	switch x := x.(type) {
	case bool:
		return mkBoolConst(x)
	case symBool:
		return x.t
	}
	panic(fmt.Sprintf("boolTerm: %T", x))
}

// wrapInt returns a concrete value when t is constant, else a symInt.
func wrapInt(k types.BasicKind, t *Term) value {
	if t.isConst() {
		if kindSigned(k) {
			return mkConcrete(k, uint64(signExt(t.val, t.w)))
		}
		return mkConcrete(k, t.val)
	}
	return symInt{k, t}
}

func wrapBool(t *Term) value {
	if t.isConst() {
		return t.val == 1
	}
	return symBool{t}
}

func isSym(x value) bool {
	switch x.(type) {
	case symInt, symBool, *symStr:
		return true
	}
	return false
}

// symBinop handles a binary operation with at least one symbolic scalar
// operand.  ok=false if the operands are not symbolic scalars.
func symBinop(op token.Token, x, y value) (value, bool) {
	switch x.(type) {
	case symBool, bool:
		_, sx := x.(symBool)
		_, sy := y.(symBool)
		if !sx && !sy {
			return nil, false
		}
		a, b := boolTerm(x), boolTerm(y)
		switch op {
		case token.EQL:
			return wrapBool(mkEq(a, b)), true
		case token.NEQ:
			return wrapBool(mkNot(mkEq(a, b))), true
		case token.AND, token.LAND:
			return wrapBool(mkAnd(a, b)), true
		case token.OR, token.LOR:
			return wrapBool(mkOr(a, b)), true
		}
		panic(fmt.Sprintf("symBinop: bool op %s", op))
	}
	_, sx := x.(symInt)
	_, sy := y.(symInt)
	if !sx && !sy {
		return nil, false
	}
	if _, ok := kindOf(x); !ok && !sx {
		return nil, false
	}
	a, k := termOf(x)
	signed := kindSigned(k)
	// shifts: the count may have a different type
	if op == token.SHL || op == token.SHR {
		b, kb := termOf(y)
		if kindSigned(kb) {
			// negative shift counts panic in Go; callers ensure
			// non-negativity is checked (see binopSym in ops).
		}
		// resize count to the width of a, saturating: if count >= w
		// the SMT semantics of bvshl/bvlshr already yield 0 (and
		// bvashr the sign fill), matching Go, provided the count is
		// not truncated.  Extend when narrower; when wider, saturate.
		var c *Term
		if b.w <= a.w {
			c = mkResize(b, a.w, false)
		} else {
			big := mkCmp("bvuge", b, mkBV(b.w, uint64(a.w)))
			c = mkIte(big, mkBV(a.w, uint64(a.w)), mkResize(b, a.w, false))
		}
		switch {
		case op == token.SHL:
			return wrapInt(k, mkBin("bvshl", a, c)), true
		case signed:
			return wrapInt(k, mkBin("bvashr", a, c)), true
		default:
			return wrapInt(k, mkBin("bvlshr", a, c)), true
		}
	}
	b, _ := termOf(y)
	pick := func(s, u string) string {
		if signed {
			return s
		}
		return u
	}
	switch op {
	case token.ADD:
		return wrapInt(k, mkBin("bvadd", a, b)), true
	case token.SUB:
		return wrapInt(k, mkBin("bvsub", a, b)), true
	case token.MUL:
		return wrapInt(k, mkBin("bvmul", a, b)), true
	case token.QUO:
		return wrapInt(k, mkBin(pick("bvsdiv", "bvudiv"), a, b)), true
	case token.REM:
		return wrapInt(k, mkBin(pick("bvsrem", "bvurem"), a, b)), true
	case token.AND:
		return wrapInt(k, mkBin("bvand", a, b)), true
	case token.OR:
		return wrapInt(k, mkBin("bvor", a, b)), true
	case token.XOR:
		return wrapInt(k, mkBin("bvxor", a, b)), true
	case token.AND_NOT:
		return wrapInt(k, mkBin("bvand", a, mkBVNot(b))), true
	case token.EQL:
		return wrapBool(mkEq(a, b)), true
	case token.NEQ:
		return wrapBool(mkNot(mkEq(a, b))), true
	case token.LSS:
		return wrapBool(mkCmp(pick("bvslt", "bvult"), a, b)), true
	case token.LEQ:
		return wrapBool(mkCmp(pick("bvsle", "bvule"), a, b)), true
	case token.GTR:
		return wrapBool(mkCmp(pick("bvsgt", "bvugt"), a, b)), true
	case token.GEQ:
		return wrapBool(mkCmp(pick("bvsge", "bvuge"), a, b)), true
	}
	panic(fmt.Sprintf("symBinop: int op %s", op))
}

// symConv converts a symbolic integer to basic kind dst.
func symConv(dst types.BasicKind, x symInt) value {
	return wrapInt(dst, mkResize(x.t, kindWidth(dst), kindSigned(x.k)))
}
