package interp

// Intrinsics: functions the engine answers itself, either because they are
// the harness API, or because their real bodies cannot be interpreted
// (assembly, reflection, unsafe), or as a concrete fast path.
//
// An intrinsic may return notHandled to fall through to interpreting the
// function's real body.

import (
	"bytes"
	"encoding/base64"
	"encoding/hex"
	"fmt"
	"go/token"
	"go/types"
	"sort"
	"strconv"
	"strings"
	"unicode/utf8"

	"golang.org/x/tools/go/ssa"
)

type notHandledT struct{}

var notHandled = notHandledT{}

func (i *interpreter) lookupIntrinsic(fn *ssa.Function) externalFn {
	if ext, ok := i.intrinsic[fn]; ok {
		return ext
	}
	if i.noIntr[fn] {
		return nil
	}
	var ext externalFn
	name := fn.String()
	if fn.Pkg != nil && fn.Pkg == i.cfg.VerifPkg && fn.Signature.Recv() == nil {
		ext = verifAPI[fn.Name()]
	}
	if ext == nil {
		ext = externals[name]
	}
	if ext == nil && fn.Pkg != nil {
		switch fn.Pkg.Pkg.Path() {
		case "log/slog":
			if fn.Signature.Recv() == nil && fn.Signature.Results().Len() == 0 {
				ext = extNoop
			}
		case "log":
			if fn.Signature.Results().Len() == 0 {
				ext = extNoop
			}
		}
	}
	if ext == nil {
		i.noIntr[fn] = true
		return nil
	}
	// wrap: allow fall-through
	wrapped := func(fr *frame, args []value) value {
		r := ext(fr, args)
		if _, nh := r.(notHandledT); nh {
			return fr.i.interpretBody(fr, fn, args)
		}
		return r
	}
	i.intrinsic[fn] = wrapped
	return wrapped
}

// interpretBody runs fn's real body (used by fall-through intrinsics).
func (i *interpreter) interpretBody(fr *frame, fn *ssa.Function, args []value) value {
	return callSSABody(i, fr.caller, token.NoPos, fn, args, nil)
}

func extNoop(fr *frame, args []value) value { return nil }

func allConcrete(args []value) bool {
	for _, a := range args {
		switch a := a.(type) {
		case symInt, symBool, *symStr:
			return false
		case []value:
			for _, e := range a {
				if isSym(e) {
					return false
				}
			}
		}
	}
	return true
}

func hostBytes(x value) []byte {
	s := x.([]value)
	if s == nil {
		return nil
	}
	b := make([]byte, len(s))
	for i, e := range s {
		b[i] = e.(uint8)
	}
	return b
}

func interpBytes(b []byte) value {
	if b == nil {
		return []value(nil)
	}
	r := make([]value, len(b))
	for i, c := range b {
		r[i] = c
	}
	return r
}

func interpStrings(ss []string) value {
	if ss == nil {
		return []value(nil)
	}
	r := make([]value, len(ss))
	for i, s := range ss {
		r[i] = s
	}
	return r
}

func hostStrings(x value) []string {
	s := x.([]value)
	r := make([]string, len(s))
	for i, e := range s {
		r[i] = e.(string)
	}
	return r
}

// ---------------------------------------------------------------------------
// harness API

var verifAPI map[string]externalFn

func init() {
	verifAPI = map[string]externalFn{
		"Symbolic": func(fr *frame, args []value) value { return true },
		"Bool": func(fr *frame, args []value) value {
			fr.i.ex.noteInput(args[0].(string), "bool")
			return symBool{fr.ps().newInput(args[0].(string), 0)}
		},
		"Uint64": func(fr *frame, args []value) value {
			fr.i.ex.noteInput(args[0].(string), "any uint64")
			return symInt{types.Uint64, fr.ps().newInput(args[0].(string), 64)}
		},
		"Uint8": func(fr *frame, args []value) value {
			fr.i.ex.noteInput(args[0].(string), "any byte")
			return symInt{types.Uint8, fr.ps().newInput(args[0].(string), 8)}
		},
		"Int": func(fr *frame, args []value) value {
			return symInt{types.Int, fr.ps().newInput(args[0].(string), 64)}
		},
		"IntRange": func(fr *frame, args []value) value {
			lo, hi := args[1].(int), args[2].(int)
			fr.i.ex.noteInput(args[0].(string), fmt.Sprintf("int in [%d,%d]", lo, hi))
			if lo == hi {
				return lo
			}
			t := fr.ps().newInput(args[0].(string), 64)
			fr.ps().assume(mkAnd(mkCmp("bvsle", mkBV(64, uint64(lo)), t), mkCmp("bvsle", t, mkBV(64, uint64(hi)))))
			return symInt{types.Int, t}
		},
		"Choice": func(fr *frame, args []value) value {
			n := args[1].(int)
			fr.i.ex.noteInput(args[0].(string), fmt.Sprintf("choice of %d", n))
			if n <= 1 {
				return 0
			}
			t := fr.ps().newInput(args[0].(string), 64)
			fr.ps().assume(mkCmp("bvult", t, mkBV(64, uint64(n))))
			return symInt{types.Int, t}
		},
		"Bytes": func(fr *frame, args []value) value {
			n := args[1].(int)
			fr.i.ex.noteInput(args[0].(string), fmt.Sprintf("%d arbitrary bytes", n))
			r := make([]value, n)
			for k := 0; k < n; k++ {
				r[k] = symInt{types.Uint8, fr.ps().newInput(fmt.Sprintf("%s.%d", args[0].(string), k), 8)}
			}
			return r
		},
		"String": func(fr *frame, args []value) value {
			n := args[1].(int)
			fr.i.ex.noteInput(args[0].(string), fmt.Sprintf("%d arbitrary bytes", n))
			r := make([]value, n)
			for k := 0; k < n; k++ {
				r[k] = symInt{types.Uint8, fr.ps().newInput(fmt.Sprintf("%s.%d", args[0].(string), k), 8)}
			}
			return mkStr(r)
		},
		"Assume": func(fr *frame, args []value) value {
			fr.ps().assume(boolTerm(args[0]))
			return nil
		},
		"Assert": func(fr *frame, args []value) value {
			fr.ps().assert(boolTerm(args[0]), args[1].(string), fr.caller.stackStrings())
			return nil
		},
		"Witness": func(fr *frame, args []value) value {
			fr.ps().witness(args[0].(string), boolTerm(args[1]))
			return nil
		},
		"Reach": func(fr *frame, args []value) value {
			ps := fr.ps()
			ps.reached = append(ps.reached, args[0].(string))
			return nil
		},
		"Observe": func(fr *frame, args []value) value {
			ps := fr.ps()
			ps.observed = append(ps.observed, args[0].(string)+"="+fr.i.display(args[1]))
			return nil
		},
		"Tier": func(fr *frame, args []value) value { return fr.i.cfg.Tier },
		"Bound": func(fr *frame, args []value) value {
			v := args[1].(int)
			if o, ok := fr.i.cfg.Bounds[args[0].(string)]; ok {
				v = o
			} else if fr.i.cfg.Tier == "thorough" {
				v = args[2].(int)
			}
			fr.i.ex.noteBound(args[0].(string), v)
			return v
		},
		"Concrete": func(fr *frame, args []value) value { return fr.concValue(args[0]) },
		"ConcreteString": func(fr *frame, args []value) value { return fr.concValue(args[0]) },
		"ConcreteBool": func(fr *frame, args []value) value { return fr.concValue(args[0]) },
		"IsConcrete": func(fr *frame, args []value) value { return !containsSym(args[0].(iface).v) },
		// Ite(c, a, b) builds a term-level conditional on ints without forking.
		"Ite": func(fr *frame, args []value) value {
			a, k := termOf(args[1])
			b, _ := termOf(args[2])
			return wrapInt(k, mkIte(boolTerm(args[0]), a, b))
		},
		"And": func(fr *frame, args []value) value { return wrapBool(mkAnd(boolTerm(args[0]), boolTerm(args[1]))) },
		"Or":  func(fr *frame, args []value) value { return wrapBool(mkOr(boolTerm(args[0]), boolTerm(args[1]))) },
		"Not": func(fr *frame, args []value) value { return wrapBool(mkNot(boolTerm(args[0]))) },
		"Implies": func(fr *frame, args []value) value {
			return wrapBool(mkOr(mkNot(boolTerm(args[0])), boolTerm(args[1])))
		},
		// PickStr(idx, alts...) selects a string by a (possibly symbolic)
		// index without forking when all alternatives have equal length.
		"PickStr": func(fr *frame, args []value) value {
			alts := args[1].([]value)
			si, ok := args[0].(symInt)
			if !ok {
				return alts[args[0].(int)]
			}
			n := -1
			same := true
			for _, a := range alts {
				s, isS := a.(string)
				if !isS {
					same = false
					break
				}
				if n >= 0 && len(s) != n {
					same = false
				}
				n = len(s)
			}
			if !same {
				return alts[fr.concInt(si)]
			}
			fr.ps().assume(mkCmp("bvult", si.t, mkBV(64, uint64(len(alts)))))
			out := make([]value, n)
			for k := 0; k < n; k++ {
				t := mkBV(8, uint64(alts[len(alts)-1].(string)[k]))
				for a := len(alts) - 2; a >= 0; a-- {
					t = mkIte(mkEq(si.t, mkBV(64, uint64(a))), mkBV(8, uint64(alts[a].(string)[k])), t)
				}
				out[k] = wrapInt(types.Uint8, t)
			}
			return mkStr(out)
		},
		"PickInt": func(fr *frame, args []value) value {
			alts := args[1].([]value)
			si, ok := args[0].(symInt)
			if !ok {
				return alts[args[0].(int)]
			}
			fr.ps().assume(mkCmp("bvult", si.t, mkBV(64, uint64(len(alts)))))
			t, _ := termOf(alts[len(alts)-1])
			for a := len(alts) - 2; a >= 0; a-- {
				ta, _ := termOf(alts[a])
				t = mkIte(mkEq(si.t, mkBV(64, uint64(a))), ta, t)
			}
			return wrapInt(types.Int, t)
		},
		"Spawn":      extSpawn,
		"Yield":      extYield,
		"RunThreads": extRunThreads,
		"B2I": func(fr *frame, args []value) value {
			return wrapInt(types.Int, mkIte(boolTerm(args[0]), mkBV(64, 1), mkBV(64, 0)))
		},
	}
}

// display renders a value for Observe.
func (i *interpreter) display(v value) string {
	if itf, ok := v.(iface); ok {
		if itf.t == nil {
			return "<nil>"
		}
		if sel := i.prog.MethodSets.MethodSet(itf.t).Lookup(nil, "Error"); sel != nil {
			return "error(" + i.errorString(itf) + ")"
		}
		return i.display(itf.v)
	}
	switch x := v.(type) {
	case symInt:
		return x.t.String()
	case symBool:
		return x.t.String()
	case *symStr:
		var sb strings.Builder
		for _, e := range x.b {
			if c, ok := e.(uint8); ok {
				sb.WriteByte(c)
			} else {
				sb.WriteString("{" + e.(symInt).t.String() + "}")
			}
		}
		return sb.String()
	}
	return toString(v)
}

// ---------------------------------------------------------------------------
// fmt

// fmtArg converts an interpreted interface value into a host value that the
// host fmt package renders like the target would.
func (fr *frame) fmtArg(a value) any {
	itf, ok := a.(iface)
	if !ok {
		return fr.i.display(a)
	}
	if itf.t == nil {
		return nil
	}
	// error / Stringer take precedence for %v %s %q
	ms := fr.i.prog.MethodSets.MethodSet(itf.t)
	for _, m := range []string{"Error", "String"} {
		if sel := ms.Lookup(nil, m); sel != nil {
			sig := sel.Type().(*types.Signature)
			if sig.Params().Len() == 0 && sig.Results().Len() == 1 {
				if b, ok := sig.Results().At(0).Type().Underlying().(*types.Basic); ok && b.Kind() == types.String {
					if p, isPtr := itf.v.(*value); isPtr && p == nil {
						return "<nil>"
					}
					fn := fr.i.prog.MethodValue(sel)
					r := call(fr.i, fr, token.NoPos, fn, []value{itf.v})
					if _, ok := r.(*symStr); ok {
						return fmtOpaque{fr.i.display(r)}
					}
					return fmtStringer{r.(string)}
				}
			}
		}
	}
	switch v := itf.v.(type) {
	case bool, int, int8, int16, int32, int64, uint, uint8, uint16, uint32, uint64, uintptr, float32, float64, string:
		return v
	case symInt, symBool, *symStr:
		return fmtOpaque{fr.i.display(v)}
	case []value:
		// []byte prints as bytes, []string as list
		if sl, ok := itf.t.Underlying().(*types.Slice); ok {
			if b, ok := sl.Elem().Underlying().(*types.Basic); ok {
				switch b.Kind() {
				case types.Uint8:
					if allConcrete([]value{v}) {
						return hostBytes(v)
					}
				case types.String:
					if allConcrete([]value{v}) {
						ok := true
						for _, e := range v {
							if _, isS := e.(string); !isS {
								ok = false
							}
						}
						if ok {
							return hostStrings(v)
						}
					}
				}
			}
		}
	}
	return fmtOpaque{fr.i.display(itf.v)}
}

type fmtStringer struct{ s string }

func (f fmtStringer) String() string { return f.s }

type fmtOpaque struct{ s string }

func (f fmtOpaque) String() string { return f.s }

func (fr *frame) fmtArgs(args value) []any {
	var out []any
	for _, a := range args.([]value) {
		out = append(out, fr.fmtArg(a))
	}
	return out
}

// sprintf formats like fmt.Sprintf.  Symbolic strings are spliced in
// byte-for-byte under %s/%v; symbolic integers are made concrete (forking)
// unless forMessage is set, in which case the result is an opaque message
// string that aborts the path if anything ever inspects it.
func (fr *frame) sprintf(format string, argv []value, forMessage bool) value {
	format = strings.ReplaceAll(format, "%w", "%v")
	// symbolic integers/bools: render lazily, so that text that is only
	// logged or wrapped into an error never forces a case split
	for _, a := range argv {
		if itf, ok := a.(iface); ok {
			switch itf.v.(type) {
			case symInt, symBool:
				hint := format
				for _, b := range argv {
					hint += " " + fr.i.display(b)
				}
				return &symStr{opaque: hint, lazy: func() []value {
					r := fr.sprintfNow(format, argv)
					return strElems(r)
				}}
			}
		}
	}
	return fr.sprintfNow(format, argv)
}

func (fr *frame) sprintfNow(format string, argv []value) value {
	forMessage := false
	anySym := false
	for _, a := range argv {
		if itf, ok := a.(iface); ok && containsSym(itf.v) {
			anySym = true
		}
	}
	if !anySym {
		// arguments whose String/Error methods return symbolic text are
		// detected by fmtArg (fmtOpaque)
		hostArgs := make([]any, len(argv))
		for k, a := range argv {
			hostArgs[k] = fr.fmtArg(a)
			if _, op := hostArgs[k].(fmtOpaque); op {
				anySym = true
			}
		}
		if !anySym {
			return fmt.Sprintf(format, hostArgs...)
		}
	}
	var out []value
	emit := func(s string) {
		for k := 0; k < len(s); k++ {
			out = append(out, s[k])
		}
	}
	opaque := false
	argi := 0
	for k := 0; k < len(format); {
		if format[k] != '%' {
			j := strings.IndexByte(format[k:], '%')
			if j < 0 {
				j = len(format) - k
			}
			emit(format[k : k+j])
			k += j
			continue
		}
		j := k + 1
		for j < len(format) && strings.IndexByte("+-# 0123456789.", format[j]) >= 0 {
			j++
		}
		if j >= len(format) {
			emit(format[k:])
			break
		}
		verb := format[j]
		spec := format[k : j+1]
		k = j + 1
		if verb == '%' {
			emit("%")
			continue
		}
		if verb == '[' || verb == '*' {
			unsupported("fmt verb %q with symbolic arguments", spec)
		}
		if argi >= len(argv) {
			emit(fmt.Sprintf(spec))
			continue
		}
		a := argv[argi]
		argi++
		itf, _ := a.(iface)
		var sv value = itf.v
		// resolve Stringer/error to its string
		if itf.t != nil {
			ms := fr.i.prog.MethodSets.MethodSet(itf.t)
			for _, m := range []string{"Error", "String"} {
				if sel := ms.Lookup(nil, m); sel != nil {
					sig := sel.Type().(*types.Signature)
					if sig.Params().Len() == 0 && sig.Results().Len() == 1 && (verb == 's' || verb == 'v' || verb == 'q') {
						if p, isPtr := itf.v.(*value); isPtr && p == nil {
							break
						}
						sv = call(fr.i, fr, token.NoPos, fr.i.prog.MethodValue(sel), []value{itf.v})
						break
					}
				}
			}
		}
		switch x := sv.(type) {
		case *symStr:
			if spec == "%s" || spec == "%v" {
				x.force()
				out = append(out, x.b...)
				continue
			}
			if forMessage {
				opaque = true
				emit(displayStr(x))
				continue
			}
			emit(fmt.Sprintf(spec, fr.concValue(x)))
		case symInt, symBool:
			if forMessage {
				opaque = true
				emit(fr.i.display(x))
				continue
			}
			emit(fmt.Sprintf(spec, fr.concValue(x)))
		case string:
			emit(fmt.Sprintf(spec, x))
		default:
			if containsSym(sv) || containsSymDeep(sv) {
				if !forMessage {
					unsupported("fmt %q of a composite value with symbolic parts", spec)
				}
				opaque = true
				emit(fr.i.display(sv))
				continue
			}
			emit(fmt.Sprintf(spec, fr.fmtArg(a)))
		}
	}
	if opaque {
		return &symStr{opaque: displayStr(&symStr{b: out})}
	}
	return mkStr(out)
}

func containsSymDeep(x value) bool {
	switch x := x.(type) {
	case []value:
		for _, e := range x {
			if containsSym(e) {
				return true
			}
		}
	}
	return false
}

func extFmtSprintf(fr *frame, args []value) value {
	return fr.sprintf(args[0].(string), args[1].([]value), false)
}

func extFmtSprint(fr *frame, args []value) value {
	for _, a := range args[0].([]value) {
		if itf, ok := a.(iface); ok && (containsSym(itf.v) || containsSymDeep(itf.v)) {
			unsupported("fmt.Sprint with symbolic arguments")
		}
	}
	return fmt.Sprint(fr.fmtArgs(args[0])...)
}
func extFmtSprintln(fr *frame, args []value) value { return fmt.Sprintln(fr.fmtArgs(args[0])...) }

// fmt.Errorf: %w operands are kept so that errors.Is/As/Unwrap work.
func extFmtErrorf(fr *frame, args []value) value {
	format := args[0].(string)
	var wrapped []value
	// find the operands of %w verbs
	argi := 0
	for k := 0; k < len(format); k++ {
		if format[k] != '%' {
			continue
		}
		k++
		if k < len(format) && format[k] == '%' {
			continue
		}
		for k < len(format) && strings.IndexByte("+-# 0123456789.[]*", format[k]) >= 0 {
			k++
		}
		if k < len(format) {
			if format[k] == 'w' {
				if argi < len(args[1].([]value)) {
					if itf, ok := args[1].([]value)[argi].(iface); ok && itf.t != nil {
						wrapped = append(wrapped, itf)
					}
				}
			}
			argi++
		}
	}
	msg := fr.sprintf(format, args[1].([]value), true)
	return fr.i.makeError(msg, wrapped)
}

// makeError builds an error value of the harness support types
// verif.WrapError / verif.WrapErrors / verif.PlainError.
func (i *interpreter) makeError(msg value, wrapped []value) value {
	vp := i.cfg.VerifPkg
	switch len(wrapped) {
	case 0:
		t := vp.Type("PlainError").Type()
		cell := value(structure{msg})
		return iface{t: types.NewPointer(t), v: &cell}
	case 1:
		t := vp.Type("WrapError").Type()
		cell := value(structure{msg, wrapped[0]})
		return iface{t: types.NewPointer(t), v: &cell}
	}
	t := vp.Type("WrapErrors").Type()
	cell := value(structure{msg, []value(wrapped)})
	return iface{t: types.NewPointer(t), v: &cell}
}

// ---------------------------------------------------------------------------
// errors.Is / errors.As

func (i *interpreter) methodOf(t types.Type, name string) *ssa.Function {
	sel := i.prog.MethodSets.MethodSet(t).Lookup(nil, name)
	if sel == nil {
		// unexported or package-qualified lookups are not needed here
		return nil
	}
	return i.prog.MethodValue(sel)
}

func (fr *frame) errorsIs(err, target iface) bool {
	if err.t == nil || target.t == nil {
		return err.t == nil && target.t == nil
	}
	comparable := types.Comparable(target.t)
	for {
		if comparable && sameType(err.t, target.t) {
			t := eqTerm(err.t, err.v, target.v)
			if fr.ps().branch(t) {
				return true
			}
		}
		if m := fr.i.methodOf(err.t, "Is"); m != nil && m.Signature.Params().Len() == 1 && m.Signature.Results().Len() == 1 {
			if fr.condBool(call(fr.i, fr, token.NoPos, m, []value{err.v, target})) {
				return true
			}
		}
		m := fr.i.methodOf(err.t, "Unwrap")
		if m == nil || m.Signature.Params().Len() != 0 || m.Signature.Results().Len() != 1 {
			return false
		}
		r := call(fr.i, fr, token.NoPos, m, []value{err.v})
		switch r := r.(type) {
		case iface:
			if r.t == nil {
				return false
			}
			err = r
		case []value:
			for _, e := range r {
				if e.(iface).t == nil {
					continue
				}
				if fr.errorsIs(e.(iface), target) {
					return true
				}
			}
			return false
		default:
			return false
		}
	}
}

func extErrorsIs(fr *frame, args []value) value {
	return fr.errorsIs(args[0].(iface), args[1].(iface))
}

func (fr *frame) errorsAs(err iface, targetT types.Type, dst *value) bool {
	for err.t != nil {
		ok := false
		if it, isI := targetT.Underlying().(*types.Interface); isI {
			ok = types.Implements(err.t, it)
			if ok {
				*dst = err
				return true
			}
		} else if types.Identical(err.t, targetT) {
			store(targetT, dst, err.v)
			return true
		}
		if m := fr.i.methodOf(err.t, "As"); m != nil {
			unsupported("errors.As with an As method on %s", err.t)
		}
		m := fr.i.methodOf(err.t, "Unwrap")
		if m == nil || m.Signature.Params().Len() != 0 || m.Signature.Results().Len() != 1 {
			return false
		}
		r := call(fr.i, fr, token.NoPos, m, []value{err.v})
		switch r := r.(type) {
		case iface:
			err = r
		case []value:
			for _, e := range r {
				if fr.errorsAs(e.(iface), targetT, dst) {
					return true
				}
			}
			return false
		default:
			return false
		}
	}
	return false
}

func extErrorsAs(fr *frame, args []value) value {
	err := args[0].(iface)
	tgt := args[1].(iface)
	if tgt.t == nil {
		panic(targetPanic{iface{fr.i.runtimeErrorString, "errors: target cannot be nil"}})
	}
	pt, ok := tgt.t.Underlying().(*types.Pointer)
	if !ok {
		panic(targetPanic{iface{fr.i.runtimeErrorString, "errors: target must be a non-nil pointer"}})
	}
	return fr.errorsAs(err, pt.Elem(), tgt.v.(*value))
}

// ---------------------------------------------------------------------------
// sort.Slice and friends (reflection-based in the real library)

func extSortSlice(fr *frame, args []value) value {
	itf := args[0].(iface)
	s := itf.v.([]value)
	elemT := itf.t.Underlying().(*types.Slice).Elem()
	less := args[1]
	lessFn := func(a, b int) bool {
		return fr.condBool(call(fr.i, fr, token.NoPos, less, []value{a, b}))
	}
	// insertion sort (stable); the comparator sees indices, so elements
	// are moved by adjacent swaps exactly as observed by less.
	for a := 1; a < len(s); a++ {
		for b := a; b > 0 && lessFn(b, b-1); b-- {
			tmp := load(elemT, &s[b])
			store(elemT, &s[b], load(elemT, &s[b-1]))
			store(elemT, &s[b-1], tmp)
		}
	}
	return nil
}

func extSortStrings(fr *frame, args []value) value {
	x := args[0].([]value)
	if !allConcrete([]value{x}) {
		return notHandled
	}
	sort.SliceStable(x, func(i, j int) bool { return x[i].(string) < x[j].(string) })
	return nil
}

// ---------------------------------------------------------------------------
// sync

func extOnceDo(fr *frame, args []value) value {
	recv := args[0].(*value)
	ps := fr.ps()
	if ps.onceDone == nil {
		ps.onceDone = map[*value]bool{}
	}
	if !ps.onceDone[recv] {
		ps.onceDone[recv] = true
		call(fr.i, fr, token.NoPos, args[1], nil)
	}
	return nil
}

// ---------------------------------------------------------------------------
// strings / bytes / bytealg

func extBytealgIndexByteString(fr *frame, args []value) value {
	return fr.indexByte(strElems(args[0]), args[1])
}

func extBytealgIndexByte(fr *frame, args []value) value {
	return fr.indexByte(args[0].([]value), args[1])
}

// indexByte forks per position when bytes are symbolic.
func (fr *frame) indexByte(s []value, c value) value {
	ct := byteTerm(c)
	for i, b := range s {
		if fr.ps().branch(mkEq(byteTerm(b), ct)) {
			return i
		}
	}
	return -1
}

func (fr *frame) lastIndexByte(s []value, c value) value {
	ct := byteTerm(c)
	for i := len(s) - 1; i >= 0; i-- {
		if fr.ps().branch(mkEq(byteTerm(s[i]), ct)) {
			return i
		}
	}
	return -1
}

func (fr *frame) countByte(s []value, c value) value {
	ct := byteTerm(c)
	n := 0
	for _, b := range s {
		if fr.ps().branch(mkEq(byteTerm(b), ct)) {
			n++
		}
	}
	return n
}

func elemsOf(x value) []value {
	if isStr(x) {
		return strElems(x)
	}
	return x.([]value)
}

func extEqualBytes(fr *frame, args []value) value {
	a, b := elemsOf(args[0]), elemsOf(args[1])
	if len(a) != len(b) {
		return false
	}
	r := tTrue
	for i := range a {
		r = mkAnd(r, mkEq(byteTerm(a[i]), byteTerm(b[i])))
	}
	return wrapBool(r)
}

func extCompareBytes(fr *frame, args []value) value {
	a, b := elemsOf(args[0]), elemsOf(args[1])
	if allConcrete([]value{a, b}) {
		return bytes.Compare(hostBytes(a), hostBytes(b))
	}
	lt := strLtTerm(&symStr{b: a}, &symStr{b: b}, false)
	eq := strEqTerm(&symStr{b: a}, &symStr{b: b})
	return wrapInt(types.Int, mkIte(lt, mkBV(64, ^uint64(0)), mkIte(eq, mkBV(64, 0), mkBV(64, 1))))
}

// index of substring: native when concrete, else a position-by-position fork
func (fr *frame) indexSub(s, sub []value) value {
	n, m := len(s), len(sub)
	if m == 0 {
		return 0
	}
	for i := 0; i+m <= n; i++ {
		t := tTrue
		for j := 0; j < m; j++ {
			t = mkAnd(t, mkEq(byteTerm(s[i+j]), byteTerm(sub[j])))
		}
		if fr.ps().branch(t) {
			return i
		}
	}
	return -1
}

func extStringsIndex(fr *frame, args []value) value {
	if allConcrete(args) {
		return strings.Index(args[0].(string), args[1].(string))
	}
	return fr.indexSub(strElems(args[0]), strElems(args[1]))
}

func extBytesIndex(fr *frame, args []value) value {
	if allConcrete(args) {
		return bytes.Index(hostBytes(args[0]), hostBytes(args[1]))
	}
	return fr.indexSub(args[0].([]value), args[1].([]value))
}

func extStringsBuilderString(fr *frame, args []value) value {
	b := (*args[0].(*value)).(structure)
	buf := b[1].([]value)
	return mkStr(buf)
}

func extMakeNoZero(fr *frame, args []value) value {
	n := int(fr.concInt(args[0]))
	r := make([]value, n)
	for k := range r {
		r[k] = uint8(0)
	}
	return r
}

// concrete fast paths; symbolic arguments fall through to the real body
func strFast1(f func(string) value) externalFn {
	return func(fr *frame, args []value) value {
		s, ok := args[0].(string)
		if !ok {
			return notHandled
		}
		return f(s)
	}
}

func strFast2(f func(a, b string) value) externalFn {
	return func(fr *frame, args []value) value {
		a, ok1 := args[0].(string)
		b, ok2 := args[1].(string)
		if !ok1 || !ok2 {
			return notHandled
		}
		return f(a, b)
	}
}

func init() {
	ext := map[string]externalFn{
		"fmt.Sprintf":  extFmtSprintf,
		"fmt.Sprint":   extFmtSprint,
		"fmt.Sprintln": extFmtSprintln,
		"fmt.Errorf":   extFmtErrorf,
		"fmt.Printf":   func(fr *frame, args []value) value { return tuple{0, iface{}} },
		"fmt.Println":  func(fr *frame, args []value) value { return tuple{0, iface{}} },
		"fmt.Print":    func(fr *frame, args []value) value { return tuple{0, iface{}} },
		"fmt.Fprintf":  func(fr *frame, args []value) value { return tuple{0, iface{}} },
		"fmt.Fprintln": func(fr *frame, args []value) value { return tuple{0, iface{}} },
		"fmt.Fprint":   func(fr *frame, args []value) value { return tuple{0, iface{}} },

		"errors.Is": extErrorsIs,
		"errors.As": extErrorsAs,

		"sort.Slice":       extSortSlice,
		"sort.SliceStable": extSortSlice,
		"sort.Strings":     extSortStrings,

		"(*sync.Mutex).Lock":      extNoop,
		"(*sync.Mutex).Unlock":    extNoop,
		"(*sync.Mutex).TryLock":   func(fr *frame, args []value) value { return true },
		"(*sync.RWMutex).Lock":    extNoop,
		"(*sync.RWMutex).Unlock":  extNoop,
		"(*sync.RWMutex).RLock":   extNoop,
		"(*sync.RWMutex).RUnlock": extNoop,
		"(*sync.Once).Do":         extOnceDo,

		"log/slog.Default": func(fr *frame, args []value) value { return (*value)(nil) },
		"(*log/slog.Logger).Enabled": func(fr *frame, args []value) value { return false },
		"os.Getenv":  func(fr *frame, args []value) value { return "" },
		"os.Environ": func(fr *frame, args []value) value { return []value(nil) },
		// temporary directories are only handed to intercepted clone models
		"os.MkdirTemp": func(fr *frame, args []value) value { return tuple{"/zz-tmp/dir", iface{}} },
		"os.RemoveAll": func(fr *frame, args []value) value { return iface{} },

		"internal/bytealg.IndexByteString": extBytealgIndexByteString,
		"internal/bytealg.IndexByte":       extBytealgIndexByte,
		"internal/bytealg.CountString": func(fr *frame, args []value) value {
			return fr.countByte(strElems(args[0]), args[1])
		},
		"internal/bytealg.Count": func(fr *frame, args []value) value {
			return fr.countByte(args[0].([]value), args[1])
		},
		"internal/bytealg.LastIndexByteString": func(fr *frame, args []value) value {
			return fr.lastIndexByte(strElems(args[0]), args[1])
		},
		"internal/bytealg.LastIndexByte": func(fr *frame, args []value) value {
			return fr.lastIndexByte(args[0].([]value), args[1])
		},
		"internal/bytealg.Equal":     extEqualBytes,
		"internal/bytealg.Compare":   extCompareBytes,
		"internal/bytealg.CompareString": extCompareBytes,
		"internal/bytealg.MakeNoZero": extMakeNoZero,
		"internal/bytealg.IndexString": func(fr *frame, args []value) value {
			return fr.indexSub(strElems(args[0]), strElems(args[1]))
		},
		"internal/bytealg.Index": func(fr *frame, args []value) value {
			return fr.indexSub(args[0].([]value), args[1].([]value))
		},
		"bytes.Equal":   extEqualBytes,
		"bytes.Compare": extCompareBytes,
		"bytes.Index":   extBytesIndex,
		"bytes.IndexByte": func(fr *frame, args []value) value {
			return fr.indexByte(args[0].([]value), args[1])
		},
		"strings.Index": extStringsIndex,
		"strings.IndexByte": func(fr *frame, args []value) value {
			return fr.indexByte(strElems(args[0]), args[1])
		},
		"strings.Compare":            extCompareBytes,
		"(*strings.Builder).String":    extStringsBuilderString,
		"(*strings.Builder).copyCheck": extNoop,
		"strings.Clone":                func(fr *frame, args []value) value { return args[0] },
		"internal/stringslite.Clone":   func(fr *frame, args []value) value { return args[0] },

		"strings.HasPrefix":  strFast2(func(a, b string) value { return strings.HasPrefix(a, b) }),
		"strings.HasSuffix":  strFast2(func(a, b string) value { return strings.HasSuffix(a, b) }),
		"strings.Contains":   strFast2(func(a, b string) value { return strings.Contains(a, b) }),
		"strings.TrimPrefix": strFast2(func(a, b string) value { return strings.TrimPrefix(a, b) }),
		"strings.TrimSuffix": strFast2(func(a, b string) value { return strings.TrimSuffix(a, b) }),
		"strings.Split":      strFast2(func(a, b string) value { return interpStrings(strings.Split(a, b)) }),
		"strings.Count":      strFast2(func(a, b string) value { return strings.Count(a, b) }),
		"strings.LastIndex":  strFast2(func(a, b string) value { return strings.LastIndex(a, b) }),
		"strings.EqualFold":  strFast2(func(a, b string) value { return strings.EqualFold(a, b) }),
		"strings.Trim":       strFast2(func(a, b string) value { return strings.Trim(a, b) }),
		"strings.TrimLeft":   strFast2(func(a, b string) value { return strings.TrimLeft(a, b) }),
		"strings.TrimRight":  strFast2(func(a, b string) value { return strings.TrimRight(a, b) }),
		"strings.Cut": strFast2(func(a, b string) value {
			x, y, ok := strings.Cut(a, b)
			return tuple{x, y, ok}
		}),
		"strings.TrimSpace": strFast1(func(a string) value { return strings.TrimSpace(a) }),
		"strings.ToLower":   strFast1(func(a string) value { return strings.ToLower(a) }),
		"strings.ToUpper":   strFast1(func(a string) value { return strings.ToUpper(a) }),
		"strings.Fields":    strFast1(func(a string) value { return interpStrings(strings.Fields(a)) }),
		"strings.Join": func(fr *frame, args []value) value {
			if !allConcrete(args) {
				return notHandled
			}
			for _, e := range args[0].([]value) {
				if _, ok := e.(string); !ok {
					return notHandled
				}
			}
			return strings.Join(hostStrings(args[0]), args[1].(string))
		},
		"strings.Replace": func(fr *frame, args []value) value {
			if !allConcrete(args) {
				return notHandled
			}
			return strings.Replace(args[0].(string), args[1].(string), args[2].(string), args[3].(int))
		},
		"strings.ReplaceAll": func(fr *frame, args []value) value {
			if !allConcrete(args) {
				return notHandled
			}
			return strings.ReplaceAll(args[0].(string), args[1].(string), args[2].(string))
		},
		"unicode/utf8.ValidString": strFast1(func(a string) value { return utf8.ValidString(a) }),
		"unicode/utf8.RuneCountInString": strFast1(func(a string) value { return utf8.RuneCountInString(a) }),

		"strconv.Itoa": func(fr *frame, args []value) value {
			if x, ok := args[0].(int); ok {
				return strconv.Itoa(x)
			}
			return notHandled
		},
		"strconv.FormatUint": func(fr *frame, args []value) value {
			if !allConcrete(args) {
				return notHandled
			}
			return strconv.FormatUint(args[0].(uint64), args[1].(int))
		},
		"strconv.FormatInt": func(fr *frame, args []value) value {
			if !allConcrete(args) {
				return notHandled
			}
			return strconv.FormatInt(args[0].(int64), args[1].(int))
		},
		"strconv.Quote": strFast1(func(a string) value { return strconv.Quote(a) }),

		"encoding/hex.EncodeToString": func(fr *frame, args []value) value {
			if !allConcrete(args) {
				return notHandled
			}
			return hex.EncodeToString(hostBytes(args[0]))
		},
		"(*encoding/base64.Encoding).EncodeToString": func(fr *frame, args []value) value {
			if !allConcrete(args[1:]) {
				// keep the encoding unrendered: decoding it again (the
				// only thing gittuf does with envelope payloads and
				// signatures) returns the source bytes without a solver
				src := append([]value(nil), args[1].([]value)...)
				enc := fr.b64(args[0])
				recv := args[0]
				fn := fr.fn
				return &symStr{opaque: "base64(symbolic bytes)", b64src: src, b64enc: enc, lazy: func() []value {
					r := fr.i.interpretBody(fr, fn, []value{recv, src})
					return strElems(r)
				}}
			}
			return fr.b64(args[0]).EncodeToString(hostBytes(args[1]))
		},
		"(*encoding/base64.Encoding).DecodeString": func(fr *frame, args []value) value {
			if ss, isSym := args[1].(*symStr); isSym && ss.b64src != nil && ss.lazy != nil {
				if ss.b64enc == fr.b64(args[0]) {
					return tuple{append([]value(nil), ss.b64src...), iface{}}
				}
			}
			s, ok := args[1].(string)
			if !ok {
				return notHandled
			}
			b, err := fr.b64(args[0]).DecodeString(s)
			if err != nil {
				return tuple{interpBytes(b), fr.i.makeError(value(err.Error()), nil)}
			}
			return tuple{interpBytes(b), iface{}}
		},
		"time.runtimeNano": func(fr *frame, args []value) value { return int64(1) },
		"time.now":         func(fr *frame, args []value) value { return tuple{int64(1700000000), int32(0), int64(1)} },
		"time.runtimeNow":  func(fr *frame, args []value) value { return tuple{int64(1700000000), int32(0), int64(1)} },
		"runtime.KeepAlive": extNoop,
		"runtime.GC": extNoop,
	}
	for k, v := range ext {
		externals[k] = v
	}
}

// b64 identifies which standard encoding the receiver is by its alphabet
// and padding (fields encode [64]byte, decodeMap, padChar rune, strict bool).
func (fr *frame) b64(recv value) *base64.Encoding {
	st := (*recv.(*value)).(structure)
	enc := st[0].(array)
	pad := st[2].(int32)
	url := enc[62].(uint8) == '-'
	switch {
	case url && pad == -1:
		return base64.RawURLEncoding
	case url:
		return base64.URLEncoding
	case pad == -1:
		return base64.RawStdEncoding
	}
	return base64.StdEncoding
}
