package interp

// Path exploration by deterministic re-execution.
//
// A path is identified by the vector of decisions taken at symbolic choice
// points.  The explorer re-runs the harness entry with a decision prefix; at
// the first choice point beyond the prefix it asks the solver which
// alternatives are feasible, takes the first and queues the others.

import (
	"fmt"
	"sort"
	"strings"
	"sync"
	"time"
)

type Decision struct {
	Kind byte     // 'b' branch taken (Val 1 = true side), 'f' forced branch, 'v' chosen value(s), 'u' forced value(s), 'a' violated assertion
	Val  uint64   //
	Vals []uint64 // value tuple for 'v'/'u'
}

func decString(ds []Decision) string {
	var sb strings.Builder
	for _, d := range ds {
		switch d.Kind {
		case 'b':
			fmt.Fprintf(&sb, "%d", d.Val)
		case 'f':
			fmt.Fprintf(&sb, "(%d)", d.Val)
		case 'a':
			fmt.Fprintf(&sb, "!")
		default:
			fmt.Fprintf(&sb, "[%d]", d.Val)
		}
	}
	return sb.String()
}

// pathAbort is the panic payload used to unwind a path.
type pathAbort struct {
	kind string // "infeasible", "unsupported", "budget", "stop"
	msg  string
}

func unsupported(format string, args ...any) {
	panic(pathAbort{"unsupported", fmt.Sprintf(format, args...)})
}

// unsupportedAt adds the interpreted call stack to the message.
func (fr *frame) unsupportedAt(format string, args ...any) {
	msg := fmt.Sprintf(format, args...)
	for f, n := fr, 0; f != nil && n < 8; f, n = f.caller, n+1 {
		msg += " <- " + f.fn.String()
	}
	panic(pathAbort{"unsupported", msg})
}

// Violation is a failed obligation together with a model of the inputs.
type Violation struct {
	Label     string            `json:"label"`
	Model     map[string]uint64 `json:"model"`
	Decisions string            `json:"decisions"`
	Inputs    []InputDecl       `json:"inputs"`
	Panic     string            `json:"panic,omitempty"`
	Stack     []string          `json:"stack,omitempty"`
}

type InputDecl struct {
	Name string `json:"name"`
	W    int    `json:"w"`
}

type PathSample struct {
	Decisions string            `json:"decisions"`
	Outcome   string            `json:"outcome"`
	Model     map[string]uint64 `json:"model,omitempty"`
	Observed  []string          `json:"observed,omitempty"`
	Reached   []string          `json:"reached,omitempty"`
	FreeVars  int               `json:"unconstrained_inputs"`
}

type Stats struct {
	Paths          int
	Infeasible     int // paths cut by Assume
	Forks          int // decisions with more than one feasible alternative
	Pruned         int // decisions where the solver excluded all but one alternative
	Folded         int // symbolic-looking decisions decided syntactically
	Obligations    int
	Discharged     int
	Unknown        int // solver answers that were neither sat nor unsat
	Unsupported    int
	BudgetExceeded int
	Steps          int64
	Witnesses      int
	MaxDepth       int
}

type Explorer struct {
	mu         sync.Mutex
	cond       *sync.Cond
	stack      [][]Decision
	active     int
	stop       bool
	Stats      Stats
	Violations []Violation
	KnownHits  map[string]*Violation // known-finding witnesses by id
	Reached    map[string]int
	Unsupp     map[string]int
	Samples    []PathSample
	Funcs      map[string]bool // functions executed
	StubsUsed  map[string]int
	BoundsUsed map[string]int    // verif.Bound parameters and the value they took
	Inputs     map[string]string // symbolic inputs (by name pattern) and their domains
	MaxPaths   int
	StepBudget int64
	MaxViol    int
	Solver     SolverStats
	Deadline   time.Time
	TimedOut   bool
	SampleCap  int
	Verbose    bool
}

func NewExplorer() *Explorer {
	e := &Explorer{
		KnownHits:  map[string]*Violation{},
		Reached:    map[string]int{},
		Unsupp:     map[string]int{},
		Funcs:      map[string]bool{},
		StubsUsed:  map[string]int{},
		BoundsUsed: map[string]int{},
		Inputs:     map[string]string{},
		MaxPaths:   2000000,
		StepBudget: 20000000,
		MaxViol:    8,
		SampleCap:  12,
	}
	e.cond = sync.NewCond(&e.mu)
	e.stack = [][]Decision{nil}
	return e
}

func (e *Explorer) pop() ([]Decision, bool) {
	e.mu.Lock()
	defer e.mu.Unlock()
	for {
		if e.stop {
			return nil, false
		}
		if n := len(e.stack); n > 0 {
			p := e.stack[n-1]
			e.stack = e.stack[:n-1]
			e.active++
			return p, true
		}
		if e.active == 0 {
			e.cond.Broadcast()
			return nil, false
		}
		e.cond.Wait()
	}
}

func (e *Explorer) push(p []Decision) {
	e.mu.Lock()
	e.stack = append(e.stack, p)
	e.mu.Unlock()
	e.cond.Signal()
}

func (e *Explorer) done() {
	e.mu.Lock()
	e.active--
	if e.active == 0 && len(e.stack) == 0 {
		e.cond.Broadcast()
	}
	e.mu.Unlock()
}

// ---------------------------------------------------------------------------

// pathState is the per-path symbolic state of one worker.
type pathState struct {
	ex        *Explorer
	solver    *Solver
	prefix    []Decision
	pos       int
	decisions []Decision
	inputs    []*Term
	inputIdx  map[string]*Term
	steps     int64
	reached   []string
	observed  []string
	outcome   string
	nviol     int
	nassert   int
	onceDone  map[*value]bool
	known     map[uint64][]knownEnt
	jsonReg   *jsonRegistry
	coState   *coState
	curModel  map[string]uint64 // a model of the current path condition, if known
	fresh     int
}

func (ps *pathState) inReplay() bool { return ps.pos < len(ps.prefix) }

func (ps *pathState) newInput(name string, w int) *Term {
	if t, ok := ps.inputIdx[name]; ok {
		// same name requested twice on one path: make it unique
		ps.fresh++
		name = fmt.Sprintf("%s!%d", name, ps.fresh)
		_ = t
	}
	t := mkVar(sanitize(name), w)
	ps.inputs = append(ps.inputs, t)
	ps.inputIdx[name] = t
	return t
}

func sanitize(s string) string {
	var sb strings.Builder
	for _, c := range s {
		switch {
		case c >= 'a' && c <= 'z', c >= 'A' && c <= 'Z', c >= '0' && c <= '9', c == '_', c == '.', c == '!':
			sb.WriteRune(c)
		default:
			sb.WriteByte('_')
		}
	}
	return "in_" + sb.String()
}

func (ps *pathState) unknown() {
	ps.ex.mu.Lock()
	ps.ex.Stats.Unknown++
	ps.ex.mu.Unlock()
}

// ---- cheap decisions before asking the solver ------------------------------

type knownEnt struct {
	t   *Term
	val bool
}

// remember records that c has truth value v on this path from now on.
func (ps *pathState) remember(c *Term, v bool) {
	if ps.known == nil {
		ps.known = map[uint64][]knownEnt{}
	}
	ps.known[c.h] = append(ps.known[c.h], knownEnt{c, v})
}

// lookupKnown reports whether c (or its negation) was already decided.
func (ps *pathState) lookupKnown(c *Term) (bool, bool) {
	for _, e := range ps.known[c.h] {
		if sameTerm(e.t, c) {
			return e.val, true
		}
	}
	if c.op == "not" {
		for _, e := range ps.known[c.args[0].h] {
			if sameTerm(e.t, c.args[0]) {
				return !e.val, true
			}
		}
	}
	return false, false
}

// holdsInModel evaluates c under the cached model of the path condition.
func (ps *pathState) holdsInModel(c *Term) (bool, bool) {
	if ps.curModel == nil {
		return false, false
	}
	return evalTerm(c, ps.curModel, map[*Term]uint64{}) == 1, true
}

// query asks whether PC and extra is satisfiable; on sat the model becomes a
// candidate cached model (valid for PC and extra).
func (ps *pathState) query(extra *Term) (SatResult, map[string]uint64) {
	m, r := ps.solver.ModelWith(extra, ps.inputs)
	ps.solver.Stats.Feasibility++
	if r == Unknown {
		ps.unknown()
	}
	return r, m
}

// branch decides a symbolic condition, forking if both sides are feasible.
func (ps *pathState) branch(c *Term) bool {
	if c.isConst() {
		return c.val == 1
	}
	if v, ok := ps.lookupKnown(c); ok {
		ps.stat(func(s *Stats) { s.Folded++ })
		return v
	}
	if ps.inReplay() {
		d := ps.prefix[ps.pos]
		ps.pos++
		ps.decisions = append(ps.decisions, d)
		if d.Kind != 'b' && d.Kind != 'f' {
			panic(pathAbort{"unsupported", "replay divergence: expected branch decision"})
		}
		if d.Kind == 'b' {
			if d.Val == 1 {
				ps.solver.Assert(c)
			} else {
				ps.solver.Assert(mkNot(c))
			}
		}
		ps.remember(c, d.Val == 1)
		return d.Val == 1
	}
	ps.pos++
	// the cached model of the path condition settles one side for free
	var rT, rF SatResult = Unknown, Unknown
	var mT, mF map[string]uint64
	haveT, haveF := false, false
	if v, ok := ps.holdsInModel(c); ok {
		if v {
			rT, mT, haveT = Sat, ps.curModel, true
		} else {
			rF, mF, haveF = Sat, ps.curModel, true
		}
	}
	if !haveT {
		rT, mT = ps.query(c)
		if rT == Unknown {
			rT = Sat
			mT = nil
		}
	}
	if !haveF {
		if rT == Unsat {
			rF, mF = Sat, ps.curModel // the path condition is satisfiable by invariant
		} else {
			rF, mF = ps.query(mkNot(c))
			if rF == Unknown {
				rF = Sat
				mF = nil
			}
		}
	}
	switch {
	case rT == Sat && rF == Sat:
		alt := append(append([]Decision{}, ps.decisions...), Decision{Kind: 'b', Val: 0})
		ps.ex.push(alt)
		ps.decisions = append(ps.decisions, Decision{Kind: 'b', Val: 1})
		ps.solver.Assert(c)
		ps.curModel = mT
		ps.remember(c, true)
		ps.stat(func(s *Stats) { s.Forks++ })
		return true
	case rT == Sat:
		ps.decisions = append(ps.decisions, Decision{Kind: 'f', Val: 1})
		ps.curModel = mT
		ps.remember(c, true)
		ps.stat(func(s *Stats) { s.Pruned++ })
		return true
	default:
		ps.decisions = append(ps.decisions, Decision{Kind: 'f', Val: 0})
		ps.curModel = mF
		ps.remember(c, false)
		ps.stat(func(s *Stats) { s.Pruned++ })
		return false
	}
}

func (ps *pathState) stat(f func(*Stats)) {
	ps.ex.mu.Lock()
	f(&ps.ex.Stats)
	ps.ex.mu.Unlock()
}

const maxConcretize = 300

// concretize picks a concrete value for t, forking over all feasible values.
func (ps *pathState) concretize(t *Term) uint64 {
	return ps.concretizeMany([]*Term{t})[0]
}

// concretizeMany picks a joint concrete assignment for ts, forking over all
// feasible tuples.
func (ps *pathState) concretizeMany(ts []*Term) []uint64 {
	allConst := true
	for _, t := range ts {
		if !t.isConst() {
			allConst = false
		}
	}
	if allConst {
		out := make([]uint64, len(ts))
		for i, t := range ts {
			out[i] = t.val
		}
		return out
	}
	eqAll := func(vals []uint64) *Term {
		c := tTrue
		for i, t := range ts {
			if t.w == 0 {
				c = mkAnd(c, mkEq(t, mkBoolConst(vals[i] == 1)))
			} else {
				c = mkAnd(c, mkEq(t, mkBV(t.w, vals[i])))
			}
		}
		return c
	}
	if ps.inReplay() {
		d := ps.prefix[ps.pos]
		ps.pos++
		ps.decisions = append(ps.decisions, d)
		if d.Kind != 'v' && d.Kind != 'u' {
			panic(pathAbort{"unsupported", "replay divergence: expected value decision"})
		}
		vals := d.Vals
		if vals == nil {
			vals = []uint64{d.Val}
		}
		if len(vals) != len(ts) {
			panic(pathAbort{"unsupported", "replay divergence: value tuple size"})
		}
		if d.Kind == 'v' {
			ps.solver.Assert(eqAll(vals))
		}
		return vals
	}
	ps.pos++
	var tuples [][]uint64
	block := tTrue
	// the cached model gives the first tuple for free
	if ps.curModel != nil {
		memo := map[*Term]uint64{}
		first := make([]uint64, len(ts))
		for i, t := range ts {
			first[i] = evalTerm(t, ps.curModel, memo)
		}
		tuples = append(tuples, first)
		block = mkAnd(block, mkNot(eqAll(first)))
	}
	for {
		m, r := ps.solver.ModelWith(block, ts)
		ps.solver.Stats.Feasibility++
		if r == Unknown {
			ps.unknown()
			unsupported("solver unknown while enumerating values")
		}
		if r == Unsat {
			break
		}
		vals := make([]uint64, len(ts))
		for i, t := range ts {
			if t.isConst() {
				vals[i] = t.val
				continue
			}
			key := ps.solver.names[t]
			if t.op == "var" {
				key = t.name
			}
			vals[i] = m[key]
		}
		block = mkAnd(block, mkNot(eqAll(vals)))
		tuples = append(tuples, vals)
		if len(tuples) > maxConcretize {
			unsupported("concretisation of a value with more than %d alternatives", maxConcretize)
		}
	}
	if len(tuples) == 0 {
		panic(pathAbort{"infeasible", "no value"})
	}
	sort.Slice(tuples, func(i, j int) bool {
		for k := range tuples[i] {
			if tuples[i][k] != tuples[j][k] {
				return tuples[i][k] < tuples[j][k]
			}
		}
		return false
	})
	if len(tuples) == 1 {
		ps.decisions = append(ps.decisions, Decision{Kind: 'u', Val: tuples[0][0], Vals: tuples[0]})
		ps.stat(func(s *Stats) { s.Pruned++ })
		return tuples[0]
	}
	for i := len(tuples) - 1; i >= 1; i-- {
		alt := append(append([]Decision{}, ps.decisions...), Decision{Kind: 'v', Val: tuples[i][0], Vals: tuples[i]})
		ps.ex.push(alt)
	}
	ps.decisions = append(ps.decisions, Decision{Kind: 'v', Val: tuples[0][0], Vals: tuples[0]})
	ps.solver.Assert(eqAll(tuples[0]))
	ps.curModel = nil // the cached model need not satisfy the chosen tuple
	ps.stat(func(s *Stats) { s.Forks++ })
	return tuples[0]
}

// assume restricts the path to c.
func (ps *pathState) assume(c *Term) {
	if c.isConst() {
		if c.val == 0 {
			panic(pathAbort{"infeasible", "assume(false)"})
		}
		return
	}
	if v, ok := ps.lookupKnown(c); ok {
		if !v {
			panic(pathAbort{"infeasible", "assume"})
		}
		return
	}
	if !ps.inReplay() {
		if v, ok := ps.holdsInModel(c); !ok || !v {
			r, m := ps.query(c)
			if r == Unsat {
				panic(pathAbort{"infeasible", "assume"})
			}
			ps.curModel = m
		}
	}
	ps.solver.Assert(c)
	ps.remember(c, true)
}

func (ps *pathState) model(extra *Term) (map[string]uint64, SatResult) {
	return ps.solver.ModelWith(extra, ps.inputs)
}

func (ps *pathState) inputDecls() []InputDecl {
	var ds []InputDecl
	for _, t := range ps.inputs {
		ds = append(ds, InputDecl{t.name, t.w})
	}
	return ds
}

// assert discharges an obligation: the path condition must imply c.
func (ps *pathState) assert(c *Term, label string, stack []string) {
	ps.nassert++
	if ps.inReplay() {
		// discharged when this prefix was first explored; a violated
		// assertion left an 'a' decision carrying its sequence number
		if d := ps.prefix[ps.pos]; d.Kind == 'a' && d.Val == uint64(ps.nassert) {
			ps.pos++
			ps.decisions = append(ps.decisions, d)
			if c.isConst() && c.val == 0 {
				panic(pathAbort{"infeasible", "assert failed on this prefix"})
			}
			ps.solver.Assert(c)
		}
		return
	}
	ps.stat(func(s *Stats) { s.Obligations++ })
	ps.solver.Stats.Validity++
	if c.isConst() && c.val == 1 {
		ps.stat(func(s *Stats) { s.Discharged++ })
		return
	}
	var m map[string]uint64
	var r SatResult
	if v, ok := ps.holdsInModel(c); ok && !v {
		m, r = ps.curModel, Sat // the cached model is a counterexample
	} else if kv, known := ps.lookupKnown(c); known && kv {
		r = Unsat
	} else {
		m, r = ps.model(mkNot(c))
	}
	switch r {
	case Unsat:
		ps.stat(func(s *Stats) { s.Discharged++ })
		return
	case Unknown:
		ps.unknown()
		ps.solver.Assert(c)
		return
	}
	m = completeModel(m, ps.inputs)
	for _, o := range ps.observed {
		stack = append(stack, "observed: "+o)
	}
	v := Violation{Label: label, Model: m, Decisions: decString(ps.decisions), Inputs: ps.inputDecls(), Stack: stack}
	ps.ex.mu.Lock()
	ps.ex.Violations = append(ps.ex.Violations, v)
	if len(ps.ex.Violations) >= ps.ex.MaxViol {
		ps.ex.stop = true
		ps.ex.cond.Broadcast()
	}
	ps.ex.mu.Unlock()
	ps.nviol++
	// continue on the side where the assertion holds
	ps.pos++
	ps.decisions = append(ps.decisions, Decision{Kind: 'a', Val: uint64(ps.nassert)})
	ps.curModel = nil
	ps.assume(c)
}

// witness records a model of c if one exists (used for known findings and
// vacuity witnesses).
func (ps *pathState) witness(id string, c *Term) {
	if ps.inReplay() {
		return
	}
	ps.ex.mu.Lock()
	_, have := ps.ex.KnownHits[id]
	ps.ex.mu.Unlock()
	if have {
		return
	}
	if c.isConst() && c.val == 0 {
		return
	}
	m, r := ps.model(c)
	ps.solver.Stats.Other++
	if r != Sat {
		if r == Unknown {
			ps.unknown()
		}
		return
	}
	v := &Violation{Label: id, Model: m, Decisions: decString(ps.decisions), Inputs: ps.inputDecls()}
	ps.ex.mu.Lock()
	if _, have := ps.ex.KnownHits[id]; !have {
		ps.ex.KnownHits[id] = v
		ps.ex.Stats.Witnesses++
	}
	ps.ex.mu.Unlock()
}

// completeModel makes sure every declared input has a value (inputs the
// solver never saw are unconstrained: 0).
func completeModel(m map[string]uint64, inputs []*Term) map[string]uint64 {
	out := map[string]uint64{}
	for _, t := range inputs {
		out[t.name] = m[t.name]
	}
	return out
}
