package interp

// Path exploration by deterministic re-execution.
//
// A path is identified by the vector of decisions taken at symbolic choice
// points.  The explorer re-runs the harness entry with a decision prefix; at
// the first choice point beyond the prefix it asks the solver which
// alternatives are feasible, takes the first and queues the others.

import (
	"fmt"
	"sort"
	"strings"
	"sync"
	"time"
)

type Decision struct {
	Kind byte   // 'b' branch taken (Val 1 = true side), 'f' forced branch, 'v' chosen value, 'u' forced value
	Val  uint64 //
}

func decString(ds []Decision) string {
	var sb strings.Builder
	for _, d := range ds {
		switch d.Kind {
		case 'b':
			fmt.Fprintf(&sb, "%d", d.Val)
		case 'f':
			fmt.Fprintf(&sb, "(%d)", d.Val)
		case 'a':
			fmt.Fprintf(&sb, "!")
		default:
			fmt.Fprintf(&sb, "[%d]", d.Val)
		}
	}
	return sb.String()
}

// pathAbort is the panic payload used to unwind a path.
type pathAbort struct {
	kind string // "infeasible", "unsupported", "budget", "stop"
	msg  string
}

func unsupported(format string, args ...any) {
	panic(pathAbort{"unsupported", fmt.Sprintf(format, args...)})
}

// Violation is a failed obligation together with a model of the inputs.
type Violation struct {
	Label     string            `json:"label"`
	Model     map[string]uint64 `json:"model"`
	Decisions string            `json:"decisions"`
	Inputs    []InputDecl       `json:"inputs"`
	Panic     string            `json:"panic,omitempty"`
	Stack     []string          `json:"stack,omitempty"`
}

type InputDecl struct {
	Name string `json:"name"`
	W    int    `json:"w"`
}

type PathSample struct {
	Decisions string            `json:"decisions"`
	Outcome   string            `json:"outcome"`
	Model     map[string]uint64 `json:"model,omitempty"`
	Observed  []string          `json:"observed,omitempty"`
	Reached   []string          `json:"reached,omitempty"`
	FreeVars  int               `json:"unconstrained_inputs"`
}

type Stats struct {
	Paths          int
	Infeasible     int // paths cut by Assume
	Forks          int // decisions with more than one feasible alternative
	Pruned         int // decisions where the solver excluded all but one alternative
	Folded         int // symbolic-looking decisions decided syntactically
	Obligations    int
	Discharged     int
	Unknown        int // solver answers that were neither sat nor unsat
	Unsupported    int
	BudgetExceeded int
	Steps          int64
	Witnesses      int
	MaxDepth       int
}

type Explorer struct {
	mu         sync.Mutex
	cond       *sync.Cond
	stack      [][]Decision
	active     int
	stop       bool
	Stats      Stats
	Violations []Violation
	KnownHits  map[string]*Violation // known-finding witnesses by id
	Reached    map[string]int
	Unsupp     map[string]int
	Samples    []PathSample
	Funcs      map[string]bool // functions executed
	StubsUsed  map[string]int
	MaxPaths   int
	StepBudget int64
	MaxViol    int
	Solver     SolverStats
	Deadline   time.Time
	TimedOut   bool
	SampleCap  int
	Verbose    bool
}

func NewExplorer() *Explorer {
	e := &Explorer{
		KnownHits:  map[string]*Violation{},
		Reached:    map[string]int{},
		Unsupp:     map[string]int{},
		Funcs:      map[string]bool{},
		StubsUsed:  map[string]int{},
		MaxPaths:   2000000,
		StepBudget: 20000000,
		MaxViol:    8,
		SampleCap:  12,
	}
	e.cond = sync.NewCond(&e.mu)
	e.stack = [][]Decision{nil}
	return e
}

func (e *Explorer) pop() ([]Decision, bool) {
	e.mu.Lock()
	defer e.mu.Unlock()
	for {
		if e.stop {
			return nil, false
		}
		if n := len(e.stack); n > 0 {
			p := e.stack[n-1]
			e.stack = e.stack[:n-1]
			e.active++
			return p, true
		}
		if e.active == 0 {
			e.cond.Broadcast()
			return nil, false
		}
		e.cond.Wait()
	}
}

func (e *Explorer) push(p []Decision) {
	e.mu.Lock()
	e.stack = append(e.stack, p)
	e.mu.Unlock()
	e.cond.Signal()
}

func (e *Explorer) done() {
	e.mu.Lock()
	e.active--
	if e.active == 0 && len(e.stack) == 0 {
		e.cond.Broadcast()
	}
	e.mu.Unlock()
}

// ---------------------------------------------------------------------------

// pathState is the per-path symbolic state of one worker.
type pathState struct {
	ex        *Explorer
	solver    *Solver
	prefix    []Decision
	pos       int
	decisions []Decision
	inputs    []*Term
	inputIdx  map[string]*Term
	steps     int64
	reached   []string
	observed  []string
	outcome   string
	nviol     int
	nassert   int
	onceDone  map[*value]bool
	fresh     int
}

func (ps *pathState) inReplay() bool { return ps.pos < len(ps.prefix) }

func (ps *pathState) newInput(name string, w int) *Term {
	if t, ok := ps.inputIdx[name]; ok {
		// same name requested twice on one path: make it unique
		ps.fresh++
		name = fmt.Sprintf("%s!%d", name, ps.fresh)
		_ = t
	}
	t := mkVar(sanitize(name), w)
	ps.inputs = append(ps.inputs, t)
	ps.inputIdx[name] = t
	return t
}

func sanitize(s string) string {
	var sb strings.Builder
	for _, c := range s {
		switch {
		case c >= 'a' && c <= 'z', c >= 'A' && c <= 'Z', c >= '0' && c <= '9', c == '_', c == '.', c == '!':
			sb.WriteRune(c)
		default:
			sb.WriteByte('_')
		}
	}
	return "in_" + sb.String()
}

func (ps *pathState) unknown() {
	ps.ex.mu.Lock()
	ps.ex.Stats.Unknown++
	ps.ex.mu.Unlock()
}

// branch decides a symbolic condition, forking if both sides are feasible.
func (ps *pathState) branch(c *Term) bool {
	if c.isConst() {
		return c.val == 1
	}
	if ps.inReplay() {
		d := ps.prefix[ps.pos]
		ps.pos++
		ps.decisions = append(ps.decisions, d)
		if d.Kind != 'b' && d.Kind != 'f' {
			panic(pathAbort{"unsupported", "replay divergence: expected branch decision"})
		}
		if d.Kind == 'b' {
			if d.Val == 1 {
				ps.solver.Assert(c)
			} else {
				ps.solver.Assert(mkNot(c))
			}
		}
		return d.Val == 1
	}
	ps.pos++
	rT := ps.solver.CheckWith(c)
	ps.ex.mu.Lock()
	ps.ex.Stats.Unknown += 0
	ps.ex.mu.Unlock()
	ps.solver.Stats.Feasibility++
	var rF SatResult
	if rT == Unsat {
		rF = Sat // path condition is satisfiable by invariant
	} else {
		rF = ps.solver.CheckWith(mkNot(c))
		ps.solver.Stats.Feasibility++
	}
	if rT == Unknown {
		ps.unknown()
		rT = Sat
	}
	if rF == Unknown {
		ps.unknown()
		rF = Sat
	}
	switch {
	case rT == Sat && rF == Sat:
		alt := append(append([]Decision{}, ps.decisions...), Decision{'b', 0})
		ps.ex.push(alt)
		ps.decisions = append(ps.decisions, Decision{'b', 1})
		ps.solver.Assert(c)
		ps.stat(func(s *Stats) { s.Forks++ })
		return true
	case rT == Sat:
		ps.decisions = append(ps.decisions, Decision{'f', 1})
		ps.stat(func(s *Stats) { s.Pruned++ })
		return true
	default:
		ps.decisions = append(ps.decisions, Decision{'f', 0})
		ps.stat(func(s *Stats) { s.Pruned++ })
		return false
	}
}

func (ps *pathState) stat(f func(*Stats)) {
	ps.ex.mu.Lock()
	f(&ps.ex.Stats)
	ps.ex.mu.Unlock()
}

const maxConcretize = 300

// concretize picks a concrete value for t, forking over all feasible values.
func (ps *pathState) concretize(t *Term) uint64 {
	if t.isConst() {
		return t.val
	}
	if ps.inReplay() {
		d := ps.prefix[ps.pos]
		ps.pos++
		ps.decisions = append(ps.decisions, d)
		if d.Kind != 'v' && d.Kind != 'u' {
			panic(pathAbort{"unsupported", "replay divergence: expected value decision"})
		}
		if d.Kind == 'v' {
			ps.solver.Assert(mkEq(t, mkBV(t.w, d.Val)))
		}
		return d.Val
	}
	ps.pos++
	var vals []uint64
	block := tTrue
	for {
		m, r := ps.solver.ModelWith(block, []*Term{t})
		ps.solver.Stats.Feasibility++
		if r == Unknown {
			ps.unknown()
			unsupported("solver unknown while enumerating values")
		}
		if r == Unsat {
			break
		}
		var v uint64
		for _, x := range m {
			v = x
		}
		if t.w == 0 {
			block = mkAnd(block, mkNot(mkEq(t, mkBoolConst(v == 1))))
		} else {
			block = mkAnd(block, mkNot(mkEq(t, mkBV(t.w, v))))
		}
		vals = append(vals, v)
		if len(vals) > maxConcretize {
			unsupported("concretisation of a value with more than %d alternatives", maxConcretize)
		}
	}
	if len(vals) == 0 {
		panic(pathAbort{"infeasible", "no value"})
	}
	sort.Slice(vals, func(i, j int) bool { return vals[i] < vals[j] })
	if len(vals) == 1 {
		ps.decisions = append(ps.decisions, Decision{'u', vals[0]})
		ps.stat(func(s *Stats) { s.Pruned++ })
		return vals[0]
	}
	for i := len(vals) - 1; i >= 1; i-- {
		alt := append(append([]Decision{}, ps.decisions...), Decision{'v', vals[i]})
		ps.ex.push(alt)
	}
	ps.decisions = append(ps.decisions, Decision{'v', vals[0]})
	ps.solver.Assert(mkEq(t, mkBV(t.w, vals[0])))
	ps.stat(func(s *Stats) { s.Forks++ })
	return vals[0]
}

// assume restricts the path to c.
func (ps *pathState) assume(c *Term) {
	if c.isConst() {
		if c.val == 0 {
			panic(pathAbort{"infeasible", "assume(false)"})
		}
		return
	}
	if !ps.inReplay() {
		r := ps.solver.CheckWith(c)
		ps.solver.Stats.Feasibility++
		if r == Unsat {
			panic(pathAbort{"infeasible", "assume"})
		}
		if r == Unknown {
			ps.unknown()
		}
	}
	ps.solver.Assert(c)
}

func (ps *pathState) model(extra *Term) (map[string]uint64, SatResult) {
	return ps.solver.ModelWith(extra, ps.inputs)
}

func (ps *pathState) inputDecls() []InputDecl {
	var ds []InputDecl
	for _, t := range ps.inputs {
		ds = append(ds, InputDecl{t.name, t.w})
	}
	return ds
}

// assert discharges an obligation: the path condition must imply c.
func (ps *pathState) assert(c *Term, label string, stack []string) {
	ps.nassert++
	if ps.inReplay() {
		// discharged when this prefix was first explored; a violated
		// assertion left an 'a' decision carrying its sequence number
		if d := ps.prefix[ps.pos]; d.Kind == 'a' && d.Val == uint64(ps.nassert) {
			ps.pos++
			ps.decisions = append(ps.decisions, d)
			if c.isConst() && c.val == 0 {
				panic(pathAbort{"infeasible", "assert failed on this prefix"})
			}
			ps.solver.Assert(c)
		}
		return
	}
	ps.stat(func(s *Stats) { s.Obligations++ })
	ps.solver.Stats.Validity++
	if c.isConst() && c.val == 1 {
		ps.stat(func(s *Stats) { s.Discharged++ })
		return
	}
	m, r := ps.model(mkNot(c))
	switch r {
	case Unsat:
		ps.stat(func(s *Stats) { s.Discharged++ })
		return
	case Unknown:
		ps.unknown()
		ps.solver.Assert(c)
		return
	}
	v := Violation{Label: label, Model: m, Decisions: decString(ps.decisions), Inputs: ps.inputDecls(), Stack: stack}
	ps.ex.mu.Lock()
	ps.ex.Violations = append(ps.ex.Violations, v)
	if len(ps.ex.Violations) >= ps.ex.MaxViol {
		ps.ex.stop = true
		ps.ex.cond.Broadcast()
	}
	ps.ex.mu.Unlock()
	ps.nviol++
	// continue on the side where the assertion holds
	ps.pos++
	ps.decisions = append(ps.decisions, Decision{'a', uint64(ps.nassert)})
	ps.assume(c)
}

// witness records a model of c if one exists (used for known findings and
// vacuity witnesses).
func (ps *pathState) witness(id string, c *Term) {
	if ps.inReplay() {
		return
	}
	ps.ex.mu.Lock()
	_, have := ps.ex.KnownHits[id]
	ps.ex.mu.Unlock()
	if have {
		return
	}
	if c.isConst() && c.val == 0 {
		return
	}
	m, r := ps.model(c)
	ps.solver.Stats.Other++
	if r != Sat {
		if r == Unknown {
			ps.unknown()
		}
		return
	}
	v := &Violation{Label: id, Model: m, Decisions: decString(ps.decisions), Inputs: ps.inputDecls()}
	ps.ex.mu.Lock()
	if _, have := ps.ex.KnownHits[id]; !have {
		ps.ex.KnownHits[id] = v
		ps.ex.Stats.Witnesses++
	}
	ps.ex.mu.Unlock()
}
