package interp

// Symbolic-aware versions of the interpreter's primitive operations.

import (
	"encoding/base64"
	"fmt"
	"go/token"
	"go/types"
	"unicode/utf8"

	"golang.org/x/tools/go/ssa"
)

// ---------------------------------------------------------------------------
// Symbolic strings: a string of concrete length whose bytes may be terms.

type symStr struct {
	b      []value // each element is uint8 or symInt{Uint8}
	opaque string  // non-empty: display text of a not yet rendered string (see lazy)
	lazy   func() []value // renders the bytes on first inspection (may fork to make symbolic integers concrete)
	b64src []value        // non-nil: this string is the base64 encoding (b64enc) of these bytes, not yet rendered
	b64enc *base64.Encoding
}

// force renders a lazily formatted string.
func (x *symStr) force() {
	if x.lazy != nil {
		f := x.lazy
		x.lazy = nil
		x.b = f()
		x.opaque = ""
	}
}

func strElems(x value) []value {
	switch x := x.(type) {
	case string:
		r := make([]value, len(x))
		for i := 0; i < len(x); i++ {
			r[i] = x[i]
		}
		return r
	case *symStr:
		x.force()
		return x.b
	}
	panic(fmt.Sprintf("strElems: %T", x))
}

// mkStr returns a host string when every byte is concrete.
func mkStr(b []value) value {
	for _, e := range b {
		if _, ok := e.(uint8); !ok {
			return &symStr{b: append([]value(nil), b...)}
		}
	}
	bs := make([]byte, len(b))
	for i, e := range b {
		bs[i] = e.(uint8)
	}
	return string(bs)
}

func isStr(x value) bool {
	switch x.(type) {
	case string, *symStr:
		return true
	}
	return false
}

func strLen(x value) int {
	switch x := x.(type) {
	case string:
		return len(x)
	case *symStr:
		x.force()
		return len(x.b)
	}
	panic("strLen")
}

func byteTerm(x value) *Term {
	switch x := x.(type) {
	case uint8:
		return mkBV(8, uint64(x))
	case symInt:
		return x.t
	}
	panic(fmt.Sprintf("byteTerm: %T", x))
}

func strEqTerm(x, y value) *Term {
	if xs, ok := x.(string); ok {
		if ys, ok := y.(string); ok {
			return mkBoolConst(xs == ys)
		}
	}
	a, b := strElems(x), strElems(y)
	if len(a) != len(b) {
		return tFalse
	}
	r := tTrue
	for i := range a {
		r = mkAnd(r, mkEq(byteTerm(a[i]), byteTerm(b[i])))
		if r.isConst() && r.val == 0 {
			return r
		}
	}
	return r
}

// strLtTerm returns the term for x < y (orEq: x <= y).
func strLtTerm(x, y value, orEq bool) *Term {
	a, b := strElems(x), strElems(y)
	n := len(a)
	if len(b) < n {
		n = len(b)
	}
	var tail *Term
	if orEq {
		tail = mkBoolConst(len(a) <= len(b))
	} else {
		tail = mkBoolConst(len(a) < len(b))
	}
	for i := n - 1; i >= 0; i-- {
		ai, bi := byteTerm(a[i]), byteTerm(b[i])
		tail = mkIte(mkCmp("bvult", ai, bi), tTrue, mkIte(mkEq(ai, bi), tail, tFalse))
	}
	return tail
}

func symStrBinop(op token.Token, x, y value) value {
	switch op {
	case token.ADD:
		if ox, oy := opaqueText(x), opaqueText(y); ox != "" || oy != "" {
			return &symStr{opaque: displayStr(x) + displayStr(y), lazy: func() []value {
				a, b := strElems(x), strElems(y)
				return append(append([]value{}, a...), b...)
			}}
		}
		a, b := strElems(x), strElems(y)
		r := make([]value, 0, len(a)+len(b))
		r = append(append(r, a...), b...)
		return mkStr(r)
	case token.EQL:
		return wrapBool(strEqTerm(x, y))
	case token.NEQ:
		return wrapBool(mkNot(strEqTerm(x, y)))
	case token.LSS:
		return wrapBool(strLtTerm(x, y, false))
	case token.LEQ:
		return wrapBool(strLtTerm(x, y, true))
	case token.GTR:
		return wrapBool(strLtTerm(y, x, false))
	case token.GEQ:
		return wrapBool(strLtTerm(y, x, true))
	}
	panic(fmt.Sprintf("symStrBinop: %s", op))
}

// ---------------------------------------------------------------------------

func containsSym(x value) bool {
	switch x := x.(type) {
	case symInt, symBool, *symStr:
		return true
	case structure:
		for _, f := range x {
			if containsSym(f) {
				return true
			}
		}
	case array:
		for _, f := range x {
			if containsSym(f) {
				return true
			}
		}
	case iface:
		return containsSym(x.v)
	}
	return false
}

// eqTerm returns the term for x == y at static type t.
func eqTerm(t types.Type, x, y value) *Term {
	switch xv := x.(type) {
	case symInt:
		a, _ := termOf(x)
		b, _ := termOf(y)
		return mkEq(a, b)
	case symBool:
		return mkEq(boolTerm(x), boolTerm(y))
	case *symStr:
		return strEqTerm(x, y)
	case string:
		if _, ok := y.(*symStr); ok {
			return strEqTerm(x, y)
		}
	case bool:
		if _, ok := y.(symBool); ok {
			return mkEq(boolTerm(x), boolTerm(y))
		}
	case structure:
		yv := y.(structure)
		tStruct := t.Underlying().(*types.Struct)
		r := tTrue
		for i, n := 0, tStruct.NumFields(); i < n; i++ {
			if f := tStruct.Field(i); f.Name() != "_" {
				r = mkAnd(r, eqTerm(f.Type(), xv[i], yv[i]))
			}
		}
		return r
	case array:
		yv := y.(array)
		tElt := t.Underlying().(*types.Array).Elem()
		r := tTrue
		for i := range xv {
			r = mkAnd(r, eqTerm(tElt, xv[i], yv[i]))
		}
		return r
	case iface:
		yv := y.(iface)
		if !sameType(xv.t, yv.t) {
			return tFalse
		}
		if xv.t == nil {
			return tTrue
		}
		return eqTerm(xv.t, xv.v, yv.v)
	}
	if _, ok := y.(symInt); ok {
		a, _ := termOf(x)
		b, _ := termOf(y)
		return mkEq(a, b)
	}
	return mkBoolConst(equals(t, x, y))
}

// ---------------------------------------------------------------------------
// frame-level operations

func (fr *frame) ps() *pathState { return fr.i.ps }

// concInt returns a concrete int64 for an integer value, forking if symbolic.
func (fr *frame) concInt(x value) int64 {
	if s, ok := x.(symInt); ok {
		v := fr.ps().concretize(s.t)
		if kindSigned(s.k) {
			return signExt(v, s.t.w)
		}
		return int64(v)
	}
	return asInt64(x)
}

// concValue makes a scalar value concrete (forking if needed).
func (fr *frame) concValue(x value) value {
	switch s := x.(type) {
	case symInt:
		v := fr.ps().concretize(s.t)
		if kindSigned(s.k) {
			return mkConcrete(s.k, uint64(signExt(v, s.t.w)))
		}
		return mkConcrete(s.k, v)
	case symBool:
		return fr.ps().branch(s.t)
	case *symStr:
		bs := make([]byte, len(s.b))
		for i, e := range s.b {
			bs[i] = fr.concValue(e).(uint8)
		}
		return string(bs)
	}
	return x
}

// concDeep makes every scalar inside x concrete (used for map keys).
func (fr *frame) concDeep(x value) value {
	if !containsSym(x) {
		return x
	}
	switch v := x.(type) {
	case structure:
		r := make(structure, len(v))
		for i := range v {
			r[i] = fr.concDeep(v[i])
		}
		return r
	case array:
		r := make(array, len(v))
		for i := range v {
			r[i] = fr.concDeep(v[i])
		}
		return r
	case iface:
		return iface{t: v.t, v: fr.concDeep(v.v)}
	}
	return fr.concValue(x)
}

func (fr *frame) condBool(x value) bool {
	switch c := x.(type) {
	case bool:
		return c
	case symBool:
		return fr.ps().branch(c.t)
	}
	panic(fmt.Sprintf("condBool: %T", x))
}

func (fr *frame) binop(instr *ssa.BinOp) value {
	x, y := fr.get(instr.X), fr.get(instr.Y)
	op := instr.Op
	_, xs := x.(*symStr)
	_, ys := y.(*symStr)
	if xs || ys {
		return symStrBinop(op, x, y)
	}
	if op == token.EQL || op == token.NEQ {
		if containsSym(x) || containsSym(y) {
			t := eqTerm(instr.X.Type(), x, y)
			if op == token.NEQ {
				t = mkNot(t)
			}
			return wrapBool(t)
		}
		return binop(op, instr.X.Type(), x, y)
	}
	if isSym(x) || isSym(y) {
		switch op {
		case token.QUO, token.REM:
			if d, ok := y.(symInt); ok {
				if fr.ps().branch(mkEq(d.t, mkBV(d.t.w, 0))) {
					panic(targetPanic{iface{fr.i.runtimeErrorString, "integer divide by zero"}})
				}
			}
		case token.SHL, token.SHR:
			if d, ok := y.(symInt); ok && kindSigned(d.k) {
				if fr.ps().branch(mkCmp("bvslt", d.t, mkBV(d.t.w, 0))) {
					panic(targetPanic{iface{fr.i.runtimeErrorString, "negative shift amount"}})
				}
			}
		}
		if v, ok := symBinop(op, x, y); ok {
			return v
		}
	}
	return binop(op, instr.X.Type(), x, y)
}

// lazyIndex is the address of elems[idx] for a symbolic idx, valid only as
// the operand of loads.
type lazyIndex struct {
	elems []value
	idx   symInt
}

func onlyLoaded(instr *ssa.IndexAddr) bool {
	refs := instr.Referrers()
	if refs == nil || len(*refs) == 0 {
		return false
	}
	for _, r := range *refs {
		u, ok := r.(*ssa.UnOp)
		if !ok || u.Op != token.MUL {
			return false
		}
	}
	return true
}

func (fr *frame) unop(instr *ssa.UnOp) value {
	x := fr.get(instr.X)
	switch s := x.(type) {
	case *lazyIndex:
		if v, ok := fr.symIndex(array(s.elems), s.idx); ok {
			return v
		}
		i := fr.concInt(s.idx)
		return load(deref(instr.X.Type()), &s.elems[i])
	case symBool:
		if instr.Op == token.NOT {
			return wrapBool(mkNot(s.t))
		}
	case symInt:
		switch instr.Op {
		case token.SUB:
			return wrapInt(s.k, mkNeg(s.t))
		case token.XOR:
			return wrapInt(s.k, mkBVNot(s.t))
		}
	}
	return unop(instr, x)
}

func (fr *frame) conv(instr *ssa.Convert) value {
	x := fr.get(instr.X)
	tDst, tSrc := instr.Type(), instr.X.Type()
	utDst, utSrc := tDst.Underlying(), tSrc.Underlying()
	switch s := x.(type) {
	case symInt:
		if b, ok := utDst.(*types.Basic); ok {
			if b.Info()&types.IsInteger != 0 {
				return symConv(b.Kind(), s)
			}
		}
		return conv(tDst, tSrc, fr.concValue(x))
	case *symStr:
		switch d := utDst.(type) {
		case *types.Basic:
			if d.Kind() == types.String {
				return x
			}
		case *types.Slice:
			switch d.Elem().Underlying().(*types.Basic).Kind() {
			case types.Byte:
				return append([]value(nil), s.b...)
			case types.Rune:
				var res []value
				it := &symStrIter{fr: fr, s: s}
				for {
					t := it.next()
					if !t[0].(bool) {
						break
					}
					res = append(res, t[2])
				}
				return res
			}
		}
		unsupported("conversion of symbolic string to %s", tDst)
	case []value:
		if sl, ok := utSrc.(*types.Slice); ok {
			if b, ok := sl.Elem().Underlying().(*types.Basic); ok && b.Kind() == types.Byte {
				if d, ok := utDst.(*types.Basic); ok && d.Kind() == types.String {
					return mkStr(s)
				}
			}
			if b, ok := sl.Elem().Underlying().(*types.Basic); ok && b.Kind() == types.Rune {
				for i := range s {
					if isSym(s[i]) {
						s = append([]value(nil), s...)
						for j := range s {
							s[j] = fr.concValue(s[j])
						}
						x = s
						break
					}
				}
			}
		}
	}
	return conv(tDst, tSrc, x)
}

// symStrIter ranges over a symbolic string.  A symbolic byte is split into
// "ASCII" (kept symbolic) and "not ASCII" (made concrete, together with the
// continuation bytes that follow).
type symStrIter struct {
	fr *frame
	s  *symStr
	i  int
}

func (it *symStrIter) next() tuple {
	if it.i >= len(it.s.b) {
		return tuple{false, nil, nil}
	}
	start := it.i
	b0 := it.s.b[it.i]
	if sb, ok := b0.(symInt); ok {
		if it.fr.ps().branch(mkCmp("bvult", sb.t, mkBV(8, 0x80))) {
			it.i++
			return tuple{true, start, wrapInt(types.Int32, mkResize(sb.t, 32, false))}
		}
	} else if b0.(uint8) < 0x80 {
		it.i++
		return tuple{true, start, int32(b0.(uint8))}
	}
	// multi-byte or invalid: decode concretely
	var buf []byte
	for j := it.i; j < len(it.s.b) && j < it.i+4; j++ {
		buf = append(buf, it.fr.concValue(it.s.b[j]).(uint8))
	}
	r, n := utf8.DecodeRune(buf)
	it.i += n
	return tuple{true, start, int32(r)}
}

// index implements x[i] for arrays and strings.
func (fr *frame) index(instr *ssa.Index) value {
	x := fr.get(instr.X)
	if si, ok := fr.get(instr.Index).(symInt); ok {
		if v, ok := fr.symIndex(x, si); ok {
			return v
		}
	}
	idx := fr.concInt(fr.get(instr.Index))
	switch x := x.(type) {
	case array:
		return x[idx]
	case string:
		return x[idx]
	case *symStr:
		return x.b[idx]
	}
	panic(fmt.Sprintf("unexpected x type in Index: %T", x))
}

func (fr *frame) optInt(v ssa.Value) value {
	if v == nil {
		return nil
	}
	x := fr.get(v)
	if _, ok := x.(symInt); ok {
		return fr.concValue(x)
	}
	return x
}

func (fr *frame) slice(instr *ssa.Slice) value {
	x := fr.get(instr.X)
	lo, hi, max := fr.optInt(instr.Low), fr.optInt(instr.High), fr.optInt(instr.Max)
	if s, ok := x.(*symStr); ok {
		l, h := int64(0), int64(len(s.b))
		if lo != nil {
			l = asInt64(lo)
		}
		if hi != nil {
			h = asInt64(hi)
		}
		return mkStr(s.b[l:h])
	}
	return slice(x, lo, hi, max)
}

// symIndex reads a table of integers at a symbolic index as an ite-term
// (no fork), after deciding the bounds check.
func (fr *frame) symIndex(x value, idx symInt) (value, bool) {
	var elems []value
	var k types.BasicKind
	switch x := x.(type) {
	case string:
		elems, k = strElems(x), types.Uint8
	case *symStr:
		elems, k = x.b, types.Uint8
	case array:
		if len(x) == 0 {
			return nil, false
		}
		kk, ok := kindOf(x[0])
		if !ok {
			if s, isS := x[0].(symInt); isS {
				kk = s.k
			} else {
				return nil, false
			}
		}
		for _, e := range x {
			if _, ok := kindOf(e); !ok {
				if _, isS := e.(symInt); !isS {
					return nil, false
				}
			}
		}
		elems, k = x, kk
	default:
		return nil, false
	}
	if len(elems) > 512 {
		return nil, false
	}
	it := mkResize(idx.t, 64, kindSigned(idx.k))
	inb := mkCmp("bvult", it, mkBV(64, uint64(len(elems))))
	if idx.t.w < 64 && !kindSigned(idx.k) && uint64(len(elems)) >= uint64(1)<<uint(idx.t.w) {
		inb = tTrue
	}
	if !fr.ps().branch(inb) {
		panic(targetPanic{iface{fr.i.runtimeErrorString, "index out of range"}})
	}
	w := kindWidth(k)
	// group positions by element term
	type grp struct {
		t    *Term
		cond *Term
	}
	var groups []*grp
	byConst := map[uint64]*grp{}
	for i, e := range elems {
		et, _ := termOf(e)
		c := mkEq(it, mkBV(64, uint64(i)))
		if et.isConst() {
			if g, ok := byConst[et.val]; ok {
				g.cond = mkOr(g.cond, c)
				continue
			}
			g := &grp{et, c}
			byConst[et.val] = g
			groups = append(groups, g)
			continue
		}
		groups = append(groups, &grp{et, c})
	}
	// the group covering most positions becomes the default (no condition)
	cnt := map[*grp]int{}
	for _, e := range elems {
		et, _ := termOf(e)
		if et.isConst() {
			cnt[byConst[et.val]]++
		}
	}
	best := len(groups) - 1
	for i, g := range groups {
		if cnt[g] > cnt[groups[best]] {
			best = i
		}
	}
	groups[best], groups[len(groups)-1] = groups[len(groups)-1], groups[best]
	res := groups[len(groups)-1].t
	for i := len(groups) - 2; i >= 0; i-- {
		res = mkIte(groups[i].cond, groups[i].t, res)
	}
	_ = w
	return wrapInt(k, res), true
}

func opaqueText(x value) string {
	if s, ok := x.(*symStr); ok {
		return s.opaque
	}
	return ""
}

func displayStr(x value) string {
	switch x := x.(type) {
	case string:
		return x
	case *symStr:
		if x.opaque != "" {
			return x.opaque
		}
		var sb []byte
		for _, e := range x.b {
			if c, ok := e.(uint8); ok {
				sb = append(sb, c)
			} else {
				sb = append(sb, ("{" + e.(symInt).t.String() + "}")...)
			}
		}
		return string(sb)
	}
	return fmt.Sprint(x)
}

// mapFind locates key in m, deciding equality with symbolic keys through the
// solver (one branch per candidate entry) instead of enumerating the key's
// values.  It returns the entry index or -1.
func (fr *frame) mapFind(m *hashmap, key value) int {
	if m == nil {
		return -1
	}
	if !containsSym(key) && !m.hasSym {
		return m.find(key)
	}
	for i, e := range m.ents {
		if e.deleted {
			continue
		}
		if !containsSym(key) && !containsSym(e.key) {
			if equals(m.keyType, e.key, key) {
				return i
			}
			continue
		}
		if fr.ps().branch(eqTerm(m.keyType, e.key, key)) {
			return i
		}
	}
	return -1
}

func (fr *frame) mapLookup(instr *ssa.Lookup, x, key value) value {
	m, ok := x.(*hashmap)
	if !ok {
		return lookup(instr, x, key)
	}
	var v value
	found := false
	if i := fr.mapFind(m, key); i >= 0 {
		v, found = m.ents[i].value, true
	}
	if !found {
		v = zero(instr.X.Type().Underlying().(*types.Map).Elem())
	}
	if instr.CommaOk {
		return tuple{v, found}
	}
	return v
}

func (fr *frame) mapUpdate(m *hashmap, key, v value) {
	if i := fr.mapFind(m, key); i >= 0 {
		m.ents[i].value = v
		return
	}
	if containsSym(key) {
		m.appendSym(key, v)
		return
	}
	m.insert(key, v)
}

func (fr *frame) mapDelete(m *hashmap, key value) {
	i := fr.mapFind(m, key)
	if i < 0 {
		return
	}
	e := m.ents[i]
	if containsSym(e.key) {
		e.deleted = true
		m.length--
		return
	}
	m.delete(e.key)
}
