package interp

// Engine: configuration, per-worker interpreters, lazy package
// initialisation, worker pool.

import (
	"fmt"
	"go/token"
	"go/types"
	"os"
	"runtime"
	"runtime/debug"
	"sort"
	"strings"
	"sync"
	"time"

	"golang.org/x/tools/go/ssa"
)

type Config struct {
	Entry           *ssa.Function
	VerifPkg        *ssa.Package      // the harness API package
	PerPathPrefixes []string          // import-path prefixes whose globals are re-initialised per path
	Intercept       map[string]string // full function name -> model function name, or "noop"/"zero"
	Workers         int
	Tier            string
	Bounds          map[string]int
	Trace           bool
	PanicIsViolation bool
}

type Engine struct {
	Prog *ssa.Program
	Cfg  *Config
	Ex   *Explorer

	funcIndexOnce sync.Once
	funcIndex     map[string]*ssa.Function
	interceptFn   map[*ssa.Function]value
	mu            sync.Mutex
}

func NewEngine(prog *ssa.Program, cfg *Config) *Engine {
	return &Engine{Prog: prog, Cfg: cfg, Ex: NewExplorer()}
}

// FindFunc resolves a function or method by its ssa String() form, e.g.
// "pkg/path.Func" or "(*pkg/path.T).Method" or "(pkg/path.T).Method".
func (e *Engine) FindFunc(name string) *ssa.Function {
	e.funcIndexOnce.Do(func() {
		e.funcIndex = map[string]*ssa.Function{}
		for _, pkg := range e.Prog.AllPackages() {
			for _, m := range pkg.Members {
				switch m := m.(type) {
				case *ssa.Function:
					e.funcIndex[m.String()] = m
				case *ssa.Type:
					nt, ok := m.Type().(*types.Named)
					if !ok || nt.TypeParams().Len() > 0 {
						continue
					}
					for _, T := range []types.Type{nt, types.NewPointer(nt)} {
						ms := e.Prog.MethodSets.MethodSet(T)
						for k := 0; k < ms.Len(); k++ {
							sel := ms.At(k)
							if len(sel.Index()) != 1 {
								continue // promoted through embedding
							}
							fobj := sel.Obj().(*types.Func)
							recv := fobj.Type().(*types.Signature).Recv().Type()
							_, recvPtr := recv.(*types.Pointer)
							_, tPtr := T.(*types.Pointer)
							if recvPtr != tPtr {
								continue
							}
							if fn := e.Prog.FuncValue(fobj); fn != nil {
								e.funcIndex[fn.String()] = fn
							}
						}
					}
				}
			}
		}
	})
	return e.funcIndex[name]
}

func (e *Engine) resolveIntercepts() error {
	e.interceptFn = map[*ssa.Function]value{}
	for real, model := range e.Cfg.Intercept {
		rf := e.FindFunc(real)
		if rf == nil {
			return fmt.Errorf("intercept: function %q not found", real)
		}
		switch model {
		case "noop":
			e.interceptFn[rf] = externalFn(func(fr *frame, args []value) value {
				return zeroResults(rf)
			})
		default:
			mf := e.FindFunc(model)
			if mf == nil {
				return fmt.Errorf("intercept: model function %q not found", model)
			}
			if !types.Identical(sigNoRecv(rf), sigNoRecv(mf)) {
				return fmt.Errorf("intercept: %s and %s have different signatures:\n  %s\n  %s", real, model, sigNoRecv(rf), sigNoRecv(mf))
			}
			e.interceptFn[rf] = mf
		}
	}
	return nil
}

// sigNoRecv returns fn's signature with the receiver turned into the first
// parameter.
func sigNoRecv(fn *ssa.Function) *types.Signature {
	sig := fn.Signature
	if sig.Recv() == nil {
		return sig
	}
	var ps []*types.Var
	ps = append(ps, types.NewVar(token.NoPos, nil, "recv", sig.Recv().Type()))
	for i := 0; i < sig.Params().Len(); i++ {
		ps = append(ps, sig.Params().At(i))
	}
	return types.NewSignatureType(nil, nil, nil, types.NewTuple(ps...), sig.Results(), sig.Variadic())
}

func zeroResults(fn *ssa.Function) value {
	res := fn.Signature.Results()
	switch res.Len() {
	case 0:
		return nil
	case 1:
		return zero(res.At(0).Type())
	}
	return zero(res)
}

// ---------------------------------------------------------------------------

func (e *Engine) newInterp() *interpreter {
	i := &interpreter{
		prog:      e.Prog,
		globals:   make(map[*ssa.Global]*value),
		sizes:     &types.StdSizes{WordSize: 8, MaxAlign: 8},
		ex:        e.Ex,
		initDone:  map[*ssa.Package]bool{},
		initBusy:  map[*ssa.Package]bool{},
		intercept: e.interceptFn,
		intrinsic: map[*ssa.Function]externalFn{},
		noIntr:    map[*ssa.Function]bool{},
		built:     map[*ssa.Package]bool{},
		cfg:       e.Cfg,
	}
	if vp := e.Cfg.VerifPkg; vp != nil {
		if t := vp.Type("RuntimeError"); t != nil {
			i.runtimeErrorString = t.Type()
		}
	}
	prefixes := e.Cfg.PerPathPrefixes
	i.perPath = func(p *ssa.Package) bool {
		path := p.Pkg.Path()
		for _, pre := range prefixes {
			if strings.HasPrefix(path, pre) {
				return true
			}
		}
		return false
	}
	return i
}

// global returns the address of a package-level variable, initialising its
// package on first use.
func (i *interpreter) global(g *ssa.Global) *value {
	pkg := g.Pkg
	if !i.initDone[pkg] {
		i.initPkg(pkg)
	}
	if r, ok := i.globals[g]; ok {
		return r
	}
	panic(fmt.Sprintf("no storage for global %s", g))
}

func (i *interpreter) initPkg(pkg *ssa.Package) {
	i.initDone[pkg] = true
	for _, m := range pkg.Members {
		if g, ok := m.(*ssa.Global); ok {
			cell := zero(deref(g.Type()))
			i.globals[g] = &cell
		}
	}
	pkg.Build()
	if init := pkg.Func("init"); init != nil && init.Blocks != nil {
		i.initBusy[pkg] = true
		defer func() { delete(i.initBusy, pkg) }()
		callSSA(i, i.initCaller, token.NoPos, init, nil, nil)
	}
}

func deref(t types.Type) types.Type {
	if p, ok := t.Underlying().(*types.Pointer); ok {
		return p.Elem()
	}
	panic("deref: not a pointer: " + t.String())
}

// resetPerPath forgets the initialisation of per-path packages.
func (i *interpreter) resetPerPath() {
	for pkg := range i.initDone {
		if i.perPath(pkg) {
			delete(i.initDone, pkg)
		}
	}
}

func (i *interpreter) buildFunc(fn *ssa.Function) {
	pkg := fn.Pkg
	if pkg == nil {
		if o := fn.Origin(); o != nil {
			pkg = o.Pkg
		}
	}
	if pkg == nil {
		for p := fn.Parent(); p != nil && pkg == nil; p = p.Parent() {
			pkg = p.Pkg
		}
	}
	if pkg == nil || i.built[pkg] {
		return
	}
	pkg.Build()
	i.built[pkg] = true
}

func (i *interpreter) noteFunc(fn *ssa.Function) {
	// per-interpreter set, merged at the end
	if i.funcs == nil {
		i.funcs = map[*ssa.Function]int{}
	}
	i.funcs[fn]++
}

func (ex *Explorer) noteStub(name string) {
	ex.mu.Lock()
	ex.StubsUsed[name]++
	ex.mu.Unlock()
}

func (ex *Explorer) noteBound(name string, v int) {
	ex.mu.Lock()
	ex.BoundsUsed[name] = v
	ex.mu.Unlock()
}

// noteInput records the domain of a symbolic input; digits in the name are
// folded ("s0.kind", "s1.kind" -> "s#.kind") so that the table stays small.
func (ex *Explorer) noteInput(name, domain string) {
	b := []byte(name)
	for i, c := range b {
		if c >= '0' && c <= '9' {
			b[i] = '#'
		}
	}
	key := string(b)
	ex.mu.Lock()
	if old, ok := ex.Inputs[key]; !ok || (old != domain && len(ex.Inputs) < 400) {
		if ok && old != domain && !strings.Contains(old, domain) {
			domain = old + " | " + domain
		}
		ex.Inputs[key] = domain
	}
	ex.mu.Unlock()
}

func (fr *frame) rangeIter(x value) iter {
	switch x := x.(type) {
	case *symStr:
		return &symStrIter{fr: fr, s: x}
	}
	return rangeIter(x)
}

// stackStrings renders the interpreted call stack.
func (fr *frame) stackStrings() []string {
	var out []string
	for f := fr; f != nil; f = f.caller {
		out = append(out, f.fn.String())
		if len(out) > 40 {
			break
		}
	}
	return out
}

// ---------------------------------------------------------------------------

type RunResult struct {
	Wall time.Duration
}

// Run explores all paths of the entry function.
func (e *Engine) Run() error {
	if err := e.resolveIntercepts(); err != nil {
		return err
	}
	n := e.Cfg.Workers
	if n <= 0 {
		n = runtime.NumCPU()
	}
	var wg sync.WaitGroup
	errs := make(chan error, n)
	stopProgress := make(chan struct{})
	defer close(stopProgress)
	go func() {
		t0 := time.Now()
		tick := time.NewTicker(20 * time.Second)
		defer tick.Stop()
		for {
			select {
			case <-stopProgress:
				return
			case <-tick.C:
				e.Ex.mu.Lock()
				fmt.Fprintf(os.Stderr, "  ... %.0fs paths=%d queued=%d active=%d forks=%d pruned=%d obligations=%d violations=%d unsupported=%d\n", time.Since(t0).Seconds(),
					e.Ex.Stats.Paths, len(e.Ex.stack), e.Ex.active, e.Ex.Stats.Forks, e.Ex.Stats.Pruned, e.Ex.Stats.Obligations, len(e.Ex.Violations), e.Ex.Stats.Unsupported)
				e.Ex.mu.Unlock()
			}
		}
	}()
	for w := 0; w < n; w++ {
		wg.Add(1)
		go func(w int) {
			defer wg.Done()
			if err := e.worker(w); err != nil {
				errs <- err
				e.Ex.mu.Lock()
				e.Ex.stop = true
				e.Ex.cond.Broadcast()
				e.Ex.mu.Unlock()
			}
		}(w)
	}
	wg.Wait()
	select {
	case err := <-errs:
		return err
	default:
	}
	return nil
}

func (e *Engine) worker(w int) error {
	solver, err := NewSolver()
	if err != nil {
		return err
	}
	defer solver.Close()
	if e.Cfg.Trace && w == 0 {
		solver.Log = os.Stderr
	}
	i := e.newInterp()
	for {
		prefix, ok := e.Ex.pop()
		if !ok {
			break
		}
		e.runPath(i, solver, prefix)
		e.Ex.done()
		e.Ex.mu.Lock()
		if e.Ex.Stats.Paths >= e.Ex.MaxPaths || (!e.Ex.Deadline.IsZero() && time.Now().After(e.Ex.Deadline)) {
			if !e.Ex.stop {
				e.Ex.TimedOut = true
			}
			e.Ex.stop = true
			e.Ex.cond.Broadcast()
		}
		e.Ex.mu.Unlock()
	}
	// merge per-worker data
	e.Ex.mu.Lock()
	for fn := range i.funcs {
		e.Ex.Funcs[fn.String()] = true
	}
	st := solver.Stats
	e.Ex.Solver.Feasibility += st.Feasibility
	e.Ex.Solver.Validity += st.Validity
	e.Ex.Solver.Other += st.Other
	e.Ex.Solver.Time += st.Time
	if st.MaxQuery > e.Ex.Solver.MaxQuery {
		e.Ex.Solver.MaxQuery = st.MaxQuery
	}
	e.Ex.mu.Unlock()
	return nil
}

func (e *Engine) runPath(i *interpreter, solver *Solver, prefix []Decision) {
	solver.Reset()
	ps := &pathState{ex: e.Ex, solver: solver, prefix: prefix, inputIdx: map[string]*Term{}}
	i.ps = ps
	i.resetPerPath()
	i.callDepth = 0
	i.panicStack = nil
	outcome := "ok"
	var detail string
	func() {
		defer func() {
			r := recover()
			if r == nil {
				return
			}
			switch p := r.(type) {
			case pathAbort:
				outcome, detail = p.kind, p.msg
			case targetPanic:
				outcome, detail = "panic", toString(p.v)
				if itf, ok := p.v.(iface); ok && itf.t != nil {
					detail = itf.t.String() + ": " + i.errorString(itf)
				}
			case *runtime.TypeAssertionError:
				outcome, detail = "engine-error", p.Error()+"\n"+string(debug.Stack())
			case runtime.Error:
				outcome, detail = "panic", "runtime error: "+p.Error()
				if e.Cfg.Trace || os.Getenv("GOSYM_STACK") != "" {
					detail += "\n" + string(debug.Stack())
				}
			default:
				outcome, detail = "engine-error", fmt.Sprint(r)+"\n"+string(debug.Stack())
			}
		}()
		callSSA(i, nil, token.NoPos, e.Cfg.Entry, nil, nil)
	}()
	ps.killThreads()
	ps.outcome = outcome
	ex := e.Ex
	if outcome == "panic" && e.Cfg.PanicIsViolation {
		m, r := ps.model(tTrue)
		if r == Sat {
			ex.mu.Lock()
			ex.Violations = append(ex.Violations, Violation{Label: "panic", Panic: detail, Model: m, Decisions: decString(ps.decisions), Inputs: ps.inputDecls(), Stack: i.panicStack})
			if len(ex.Violations) >= ex.MaxViol {
				ex.stop = true
				ex.cond.Broadcast()
			}
			ex.mu.Unlock()
		}
	}
	var sample *PathSample
	ex.mu.Lock()
	needSample := len(ex.Samples) < ex.SampleCap && (outcome == "ok" || outcome == "panic")
	ex.mu.Unlock()
	if needSample {
		m, r := ps.model(tTrue)
		if r == Sat {
			sample = &PathSample{Decisions: decString(ps.decisions), Outcome: outcome, Model: m, Observed: ps.observed, Reached: ps.reached}
		}
	}
	ex.mu.Lock()
	defer ex.mu.Unlock()
	ex.Stats.Steps += ps.steps
	if len(ps.decisions) > ex.Stats.MaxDepth {
		ex.Stats.MaxDepth = len(ps.decisions)
	}
	switch outcome {
	case "infeasible":
		ex.Stats.Infeasible++
		return
	case "unsupported", "engine-error":
		ex.Stats.Unsupported++
		ex.Stats.Paths++
		key := firstLine(detail)
		ex.Unsupp[key]++
		if ex.Unsupp[key] == 1 && outcome == "engine-error" {
			fmt.Fprintf(os.Stderr, "engine error: %s\n", detail)
		}
		return
	case "budget":
		ex.Stats.BudgetExceeded++
		ex.Stats.Paths++
		ex.Unsupp["budget: "+detail]++
		return
	case "panic":
		if !e.Cfg.PanicIsViolation {
			ex.Unsupp["uncaught panic: "+firstLine(detail)]++
			ex.Stats.Unsupported++
		}
	}
	ex.Stats.Paths++
	for _, l := range ps.reached {
		ex.Reached[l]++
	}
	if sample != nil && len(ex.Samples) < ex.SampleCap {
		ex.Samples = append(ex.Samples, *sample)
	}
	if ex.Verbose {
		fmt.Fprintf(os.Stderr, "path %d %s %s %s\n", ex.Stats.Paths, decString(ps.decisions), outcome, firstLine(detail))
	}
}

func firstLine(s string) string {
	if i := strings.IndexByte(s, '\n'); i >= 0 {
		return s[:i]
	}
	return s
}

// errorString calls the Error method of an interpreted error value.
func (i *interpreter) errorString(itf iface) (s string) {
	defer func() {
		if r := recover(); r != nil {
			s = fmt.Sprintf("<error calling Error: %v>", r)
		}
	}()
	ms := i.prog.MethodSets.MethodSet(itf.t)
	sel := ms.Lookup(nil, "Error")
	if sel == nil {
		return toString(itf.v)
	}
	fn := i.prog.MethodValue(sel)
	r := call(i, nil, token.NoPos, fn, []value{itf.v})
	if str, ok := r.(string); ok {
		return str
	}
	return toString(r)
}

func (ex *Explorer) SortedFuncs() []string {
	var fs []string
	for f := range ex.Funcs {
		fs = append(fs, f)
	}
	sort.Strings(fs)
	return fs
}
