package interp

// Engine-level threads (C17): verif.Spawn registers a thread, verif.RunThreads
// runs them to completion, passing control only at verif.Yield points; which
// enabled thread runs next is a symbolic choice, so the explorer covers every
// interleaving at yield-point granularity.

import (
	"fmt"
	"go/token"
	"go/types"
)

type coThread struct {
	fn      value
	resume  chan bool // true = run, false = path is being abandoned
	started bool
	done    bool
}

type coMsg struct {
	t     *coThread
	done  bool
	panic any
}

type coState struct {
	threads []*coThread
	cur     *coThread
	sched   chan coMsg
	step    int
}

func (ps *pathState) co() *coState {
	if ps.coState == nil {
		ps.coState = &coState{sched: make(chan coMsg)}
	}
	return ps.coState
}

func extSpawn(fr *frame, args []value) value {
	co := fr.ps().co()
	co.threads = append(co.threads, &coThread{fn: args[0], resume: make(chan bool)})
	return nil
}

func extYield(fr *frame, args []value) value {
	co := fr.ps().coState
	if co == nil || co.cur == nil {
		return nil
	}
	t := co.cur
	co.sched <- coMsg{t: t}
	if !<-t.resume {
		panic(pathAbort{"stop", "path abandoned"})
	}
	return nil
}

func extRunThreads(fr *frame, args []value) value {
	ps := fr.ps()
	co := ps.co()
	for {
		var enabled []*coThread
		for _, t := range co.threads {
			if !t.done {
				enabled = append(enabled, t)
			}
		}
		if len(enabled) == 0 {
			co.threads = nil
			return nil
		}
		idx := 0
		if len(enabled) > 1 {
			co.step++
			v := ps.newInput(fmt.Sprintf("sched.%d", co.step), 64)
			fr.i.ex.noteInput("sched.N", "scheduler choice among the enabled threads at every yield point")
			ps.assume(mkCmp("bvult", v, mkBV(64, uint64(len(enabled)))))
			idx = int(ps.concretize(v))
		}
		t := enabled[idx]
		co.cur = t
		if !t.started {
			t.started = true
			go func(t *coThread) {
				defer func() {
					r := recover()
					if pa, ok := r.(pathAbort); ok && pa.kind == "stop" {
						return // the path was abandoned while this thread was parked
					}
					co.sched <- coMsg{t: t, done: true, panic: r}
				}()
				if !<-t.resume {
					panic(pathAbort{"stop", "path abandoned"})
				}
				call(fr.i, nil, token.NoPos, t.fn, nil)
			}(t)
		}
		t.resume <- true
		msg := <-co.sched
		co.cur = nil
		if msg.done {
			msg.t.done = true
			if msg.panic != nil {
				panic(msg.panic)
			}
		}
	}
}

// killThreads releases threads parked at a yield point when a path ends.
func (ps *pathState) killThreads() {
	co := ps.coState
	if co == nil {
		return
	}
	for _, t := range co.threads {
		if t.started && !t.done {
			select {
			case t.resume <- false:
			default:
				// not parked on resume (cannot happen: only one thread runs at a time)
			}
		}
	}
	ps.coState = nil
}

var _ = types.Typ
