package interp

// jsonmodel: encoding/json is reflection-driven and cannot be interpreted.
// Marshal returns a token and records a deep copy of the value; Unmarshal of
// a token deep-copies the recorded value into the destination.  The assumed
// contract is that marshal/unmarshal of gittuf's metadata, envelopes and
// cache index is a faithful round trip (stated in every evidence file that
// used it; JSON round-trip equivalence itself is therefore never claimed).

import (
	"fmt"
	"go/types"
	"reflect"
	"strings"
)

type jsonRecord struct {
	token string
	typ   types.Type // type of the recorded value (pointers at the top removed)
	val   value
	sym   bool
}

type jsonRegistry struct {
	recs  []*jsonRecord
	byTok map[string]*jsonRecord
}

func (ps *pathState) json() *jsonRegistry {
	if ps.jsonReg == nil {
		ps.jsonReg = &jsonRegistry{byTok: map[string]*jsonRecord{}}
	}
	return ps.jsonReg
}

// cloneValue deep-copies v of static type t.
func cloneValue(t types.Type, v value) value {
	switch tt := t.Underlying().(type) {
	case *types.Basic:
		return v
	case *types.Struct:
		s := v.(structure)
		r := make(structure, len(s))
		for i := range s {
			r[i] = cloneValue(tt.Field(i).Type(), s[i])
		}
		return r
	case *types.Array:
		a := v.(array)
		r := make(array, len(a))
		for i := range a {
			r[i] = cloneValue(tt.Elem(), a[i])
		}
		return r
	case *types.Slice:
		s := v.([]value)
		if s == nil {
			return []value(nil)
		}
		r := make([]value, len(s))
		for i := range s {
			r[i] = cloneValue(tt.Elem(), s[i])
		}
		return r
	case *types.Map:
		m := v.(*hashmap)
		if m == nil {
			return (*hashmap)(nil)
		}
		return m.cloneWith(func(k value) value { return cloneValue(tt.Key(), k) }, func(v value) value { return cloneValue(tt.Elem(), v) })
	case *types.Pointer:
		p := v.(*value)
		if p == nil {
			return (*value)(nil)
		}
		c := cloneValue(tt.Elem(), *p)
		return &c
	case *types.Interface:
		itf := v.(iface)
		if itf.t == nil {
			return itf
		}
		return iface{t: itf.t, v: cloneValue(itf.t, itf.v)}
	}
	return v
}

func deepHasSym(t types.Type, v value) bool {
	switch tt := t.Underlying().(type) {
	case *types.Basic:
		return isSym(v)
	case *types.Struct:
		for i, f := range v.(structure) {
			if deepHasSym(tt.Field(i).Type(), f) {
				return true
			}
		}
	case *types.Array:
		for _, f := range v.(array) {
			if deepHasSym(tt.Elem(), f) {
				return true
			}
		}
	case *types.Slice:
		for _, f := range v.([]value) {
			if deepHasSym(tt.Elem(), f) {
				return true
			}
		}
	case *types.Map:
		if m := v.(*hashmap); m != nil {
			for _, e := range m.ents {
				if !e.deleted && (deepHasSym(tt.Key(), e.key) || deepHasSym(tt.Elem(), e.value)) {
					return true
				}
			}
		}
	case *types.Pointer:
		if p := v.(*value); p != nil {
			return deepHasSym(tt.Elem(), *p)
		}
	case *types.Interface:
		if itf := v.(iface); itf.t != nil {
			return deepHasSym(itf.t, itf.v)
		}
	}
	return false
}

// deepEqualConcrete compares two symbolic-free values of type t structurally
// (maps as sets of pairs).
func deepEqualConcrete(t types.Type, a, b value) bool {
	switch tt := t.Underlying().(type) {
	case *types.Basic:
		return reflect.DeepEqual(a, b)
	case *types.Struct:
		x, y := a.(structure), b.(structure)
		for i := range x {
			if !deepEqualConcrete(tt.Field(i).Type(), x[i], y[i]) {
				return false
			}
		}
		return true
	case *types.Array:
		x, y := a.(array), b.(array)
		for i := range x {
			if !deepEqualConcrete(tt.Elem(), x[i], y[i]) {
				return false
			}
		}
		return true
	case *types.Slice:
		x, y := a.([]value), b.([]value)
		if len(x) != len(y) || (x == nil) != (y == nil) {
			return false
		}
		for i := range x {
			if !deepEqualConcrete(tt.Elem(), x[i], y[i]) {
				return false
			}
		}
		return true
	case *types.Map:
		x, y := a.(*hashmap), b.(*hashmap)
		if x.len() != y.len() || (x == nil) != (y == nil) {
			return false
		}
		if x == nil {
			return true
		}
		for _, e := range x.ents {
			if e.deleted {
				continue
			}
			o := y.lookup(e.key)
			if o == nil || !deepEqualConcrete(tt.Elem(), e.value, o) {
				return false
			}
		}
		return true
	case *types.Pointer:
		x, y := a.(*value), b.(*value)
		if x == nil || y == nil {
			return x == nil && y == nil
		}
		return deepEqualConcrete(tt.Elem(), *x, *y)
	case *types.Interface:
		x, y := a.(iface), b.(iface)
		if !sameType(x.t, y.t) {
			return false
		}
		if x.t == nil {
			return true
		}
		return deepEqualConcrete(x.t, x.v, y.v)
	}
	return false
}

func stripPointers(t types.Type, v value) (types.Type, value, bool) {
	for {
		p, ok := t.Underlying().(*types.Pointer)
		if !ok {
			return t, v, true
		}
		pv := v.(*value)
		if pv == nil {
			return t, v, false
		}
		t, v = p.Elem(), *pv
	}
}

func (fr *frame) jsonMarshal(arg value) value {
	itf := arg.(iface)
	reg := fr.ps().json()
	if itf.t == nil {
		return tuple{interpBytes([]byte("null")), iface{}}
	}
	t, v, ok := stripPointers(itf.t, itf.v)
	if !ok {
		return tuple{interpBytes([]byte("null")), iface{}}
	}
	// []byte of a registered token marshals as itself wrapped (RawMessage-like use is not modelled)
	sym := deepHasSym(t, v)
	if !sym {
		for _, r := range reg.recs {
			if !r.sym && types.Identical(r.typ, t) && deepEqualConcrete(t, r.val, v) {
				return tuple{interpBytes([]byte(r.token)), iface{}}
			}
		}
	}
	tok := fmt.Sprintf("{\"zzjson\":%d,\"type\":%q}", len(reg.recs), types.TypeString(t, func(p *types.Package) string { return p.Name() }))
	rec := &jsonRecord{token: tok, typ: t, val: cloneValue(t, v), sym: sym}
	reg.recs = append(reg.recs, rec)
	reg.byTok[tok] = rec
	fr.i.ex.noteStub("encoding/json.Marshal (jsonmodel)")
	return tuple{interpBytes([]byte(tok)), iface{}}
}

func (fr *frame) jsonUnmarshal(data value, dst value) value {
	fr.i.ex.noteStub("encoding/json.Unmarshal (jsonmodel)")
	bs := data.([]value)
	for _, b := range bs {
		if isSym(b) {
			unsupported("json.Unmarshal of bytes with symbolic content")
		}
	}
	tok := string(hostBytes(bs))
	ditf := dst.(iface)
	if ditf.t == nil {
		return fr.i.makeError(value("json: Unmarshal(nil)"), nil)
	}
	pt, ok := ditf.t.Underlying().(*types.Pointer)
	if !ok || ditf.v.(*value) == nil {
		return fr.i.makeError(value("json: Unmarshal(non-pointer or nil)"), nil)
	}
	cell := ditf.v.(*value)
	rec, found := fr.ps().json().byTok[tok]
	if !found {
		if strings.TrimSpace(tok) == "null" {
			return iface{}
		}
		return fr.i.makeError(value("invalid character in JSON input (jsonmodel: bytes were not produced by json.Marshal in this run)"), nil)
	}
	dt := pt.Elem()
	// destination may itself be a pointer type (e.g. **T): allocate
	for {
		p2, isPtr := dt.Underlying().(*types.Pointer)
		if !isPtr {
			break
		}
		inner := zero(p2.Elem())
		ip := &inner
		*cell = ip
		cell = ip
		dt = p2.Elem()
	}
	if types.Identical(dt, rec.typ) {
		store(dt, cell, cloneValue(rec.typ, rec.val))
		return iface{}
	}
	// Two differently named struct types with identical underlying types
	// (same field names, field types and tags -- hence the same JSON shape,
	// e.g. a function-local "tmpStatement"): the round trip is the same copy.
	if _, isStruct := dt.Underlying().(*types.Struct); isStruct && types.Identical(dt.Underlying(), rec.typ.Underlying()) {
		store(dt, cell, cloneValue(rec.typ, rec.val))
		return iface{}
	}
	// map[string]any destination: top-level string/bool/number fields by json tag
	if m, isMap := dt.Underlying().(*types.Map); isMap {
		if _, keyStr := m.Key().Underlying().(*types.Basic); keyStr {
			if _, anyElem := m.Elem().Underlying().(*types.Interface); anyElem {
				out := makeMap(m.Key(), 0).(*hashmap)
				fr.jsonFieldsToMap(rec.typ, rec.val, out)
				*cell = out
				return iface{}
			}
		}
	}
	unsupported("jsonmodel: value marshalled as %s cannot be unmarshalled into %s", rec.typ, dt)
	return nil
}

func (fr *frame) jsonFieldsToMap(t types.Type, v value, out *hashmap) {
	st, ok := t.Underlying().(*types.Struct)
	if !ok {
		return
	}
	s := v.(structure)
	for i := 0; i < st.NumFields(); i++ {
		f := st.Field(i)
		name := f.Name()
		omitempty := false
		if tag := reflect.StructTag(st.Tag(i)).Get("json"); tag != "" {
			parts := strings.Split(tag, ",")
			if parts[0] == "-" {
				continue
			}
			if parts[0] != "" {
				name = parts[0]
			}
			for _, p := range parts[1:] {
				if p == "omitempty" {
					omitempty = true
				}
			}
		}
		if f.Embedded() {
			fr.jsonFieldsToMap(f.Type(), s[i], out)
			continue
		}
		if !f.Exported() {
			continue
		}
		switch fv := s[i].(type) {
		case string:
			if omitempty && fv == "" {
				continue
			}
			out.insert(name, iface{t: types.Typ[types.String], v: fv})
		case bool:
			if omitempty && !fv {
				continue
			}
			out.insert(name, iface{t: types.Typ[types.Bool], v: fv})
		default:
			// present but not inspected by gittuf: an opaque marker
			if omitempty {
				switch x := s[i].(type) {
				case *value:
					if x == nil {
						continue
					}
				case []value:
					if len(x) == 0 {
						continue
					}
				case *hashmap:
					if x.len() == 0 {
						continue
					}
				}
			}
			out.insert(name, iface{t: types.Typ[types.String], v: "<jsonmodel: field not modelled>"})
		}
	}
}

func init() {
	externals["encoding/json.Marshal"] = func(fr *frame, args []value) value { return fr.jsonMarshal(args[0]) }
	externals["encoding/json.MarshalIndent"] = func(fr *frame, args []value) value { return fr.jsonMarshal(args[0]) }
	externals["encoding/json.Unmarshal"] = func(fr *frame, args []value) value { return fr.jsonUnmarshal(args[0], args[1]) }
}
