// Copyright 2013 The Go Authors. All rights reserved.
// Use of this source code is governed by a BSD-style
// license that can be found in the LICENSE file.

package interp

// Emulated functions that we cannot interpret because they are
// external or because they use "unsafe" or "reflect" operations.
// The table is filled in intrinsics.go.

import "math"

type externalFn func(fr *frame, args []value) value

// Key strings are from Function.String().
var externals = make(map[string]externalFn)

func init() {
	externals["math.Float64frombits"] = func(fr *frame, args []value) value { return math.Float64frombits(args[0].(uint64)) }
	externals["math.Float64bits"] = func(fr *frame, args []value) value { return math.Float64bits(args[0].(float64)) }
	externals["math.Float32frombits"] = func(fr *frame, args []value) value { return math.Float32frombits(args[0].(uint32)) }
	externals["math.Float32bits"] = func(fr *frame, args []value) value { return math.Float32bits(args[0].(float32)) }
}
