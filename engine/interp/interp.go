// Copyright 2013 The Go Authors. All rights reserved.
// Use of this source code is governed by a BSD-style
// license that can be found in the LICENSE file.

// Package ssa/interp defines an interpreter for the SSA
// representation of Go programs.
//
// This interpreter is provided as an adjunct for testing the SSA
// construction algorithm.  Its purpose is to provide a minimal
// metacircular implementation of the dynamic semantics of each SSA
// instruction.  It is not, and will never be, a production-quality Go
// interpreter.
//
// The following is a partial list of Go features that are currently
// unsupported or incomplete in the interpreter.
//
// * Unsafe operations, including all uses of unsafe.Pointer, are
// impossible to support given the "boxed" value representation we
// have chosen.
//
// * The reflect package is only partially implemented.
//
// * The "testing" package is no longer supported because it
// depends on low-level details that change too often.
//
// * "sync/atomic" operations are not atomic due to the "boxed" value
// representation: it is not possible to read, modify and write an
// interface value atomically. As a consequence, Mutexes are currently
// broken.
//
// * recover is only partially implemented.  Also, the interpreter
// makes no attempt to distinguish target panics from interpreter
// crashes.
//
// * the sizes of the int, uint and uintptr types in the target
// program are assumed to be the same as those of the interpreter
// itself.
//
// * all values occupy space, even those of types defined by the spec
// to have zero size, e.g. struct{}.  This can cause asymptotic
// performance degradation.
//
// * os.Exit is implemented using panic, causing deferred functions to
// run.
package interp // import "golang.org/x/tools/go/ssa/interp"

import (
	"fmt"
	"go/token"
	"go/types"
	"log"
	"os"
	"reflect"
	"runtime"
	"slices"
	_ "unsafe"

	"golang.org/x/tools/go/ssa"
	
)

type continuation int

const (
	kNext continuation = iota
	kReturn
	kJump
)

// Mode is a bitmask of options affecting the interpreter.
type Mode uint

const (
	DisableRecover Mode = 1 << iota // Disable recover() in target programs; show interpreter crash instead.
	EnableTracing                   // Print a trace of all instructions as they are interpreted.
)

type methodSet map[string]*ssa.Function

// State shared between all interpreted goroutines.
type interpreter struct {
	osArgs             []value                // the value of os.Args
	prog               *ssa.Program           // the SSA program
	globals            map[*ssa.Global]*value // addresses of global variables (immutable)
	mode               Mode                   // interpreter options
	runtimeErrorString types.Type             // the runtime.errorString type (iff "runtime" is present)
	sizes              types.Sizes            // the effective type-sizing function
	goroutines         int32                  // atomically updated

	// symbolic execution state
	ps        *pathState
	ex        *Explorer
	initDone  map[*ssa.Package]bool
	initBusy  map[*ssa.Package]bool
	perPath   func(*ssa.Package) bool     // packages whose globals are re-initialised on every path
	intercept map[*ssa.Function]value     // call interception table (function -> model function)
	intrinsic map[*ssa.Function]externalFn // resolved intrinsics
	noIntr    map[*ssa.Function]bool
	cfg       *Config
	callDepth int
	curStack  []*frame
	funcs     map[*ssa.Function]int
	built     map[*ssa.Package]bool
	panicStack []string
	initCaller *frame
}

type deferred struct {
	fn    value
	args  []value
	instr *ssa.Defer
	tail  *deferred
}

type frame struct {
	i                *interpreter
	caller           *frame
	fn               *ssa.Function
	block, prevBlock *ssa.BasicBlock
	env              map[ssa.Value]value // dynamic values of SSA variables
	locals           []value
	defers           *deferred
	result           value
	panicking        bool
	panic            any
	phitemps         []value // temporaries for parallel phi assignment
	cur              ssa.Instruction
}

func (fr *frame) get(key ssa.Value) value {
	switch key := key.(type) {
	case nil:
		// Hack; simplifies handling of optional attributes
		// such as ssa.Slice.{Low,High}.
		return nil
	case *ssa.Function, *ssa.Builtin:
		return key
	case *ssa.Const:
		return constValue(key)
	case *ssa.Global:
		fr.i.initCaller = fr
		return fr.i.global(key)
	}
	if r, ok := fr.env[key]; ok {
		return r
	}
	panic(fmt.Sprintf("get: no value for %T: %v", key, key.Name()))
}

// runDefer runs a deferred call d.
// It always returns normally, but may set or clear fr.panic.
func (fr *frame) runDefer(d *deferred) {
	if fr.i.mode&EnableTracing != 0 {
		fmt.Fprintf(os.Stderr, "%s: invoking deferred function call\n",
			fr.i.prog.Fset.Position(d.instr.Pos()))
	}
	var ok bool
	defer func() {
		if !ok {
			// Deferred call created a new state of panic.
			fr.panicking = true
			fr.panic = recover()
			if pa, ok := fr.panic.(pathAbort); ok {
				panic(pa)
			}
		}
	}()
	call(fr.i, fr, d.instr.Pos(), d.fn, d.args)
	ok = true
}

// runDefers executes fr's deferred function calls in LIFO order.
//
// On entry, fr.panicking indicates a state of panic; if
// true, fr.panic contains the panic value.
//
// On completion, if a deferred call started a panic, or if no
// deferred call recovered from a previous state of panic, then
// runDefers itself panics after the last deferred call has run.
//
// If there was no initial state of panic, or it was recovered from,
// runDefers returns normally.
func (fr *frame) runDefers() {
	for d := fr.defers; d != nil; d = d.tail {
		fr.runDefer(d)
	}
	fr.defers = nil
	if fr.panicking {
		panic(fr.panic) // new panic, or still panicking
	}
}

// lookupMethod returns the method set for type typ, which may be one
// of the interpreter's fake types.
func lookupMethod(i *interpreter, typ types.Type, meth *types.Func) *ssa.Function {
	return i.prog.LookupMethod(typ, meth.Pkg(), meth.Name())
}

// visitInstr interprets a single ssa.Instruction within the activation
// record frame.  It returns a continuation value indicating where to
// read the next instruction from.
func visitInstr(fr *frame, instr ssa.Instruction) continuation {
	switch instr := instr.(type) {
	case *ssa.DebugRef:
		// no-op

	case *ssa.UnOp:
		fr.env[instr] = fr.unop(instr)

	case *ssa.BinOp:
		fr.env[instr] = fr.binop(instr)

	case *ssa.Call:
		fn, args := prepareCall(fr, &instr.Call)
		fr.env[instr] = call(fr.i, fr, instr.Pos(), fn, args)

	case *ssa.ChangeInterface:
		fr.env[instr] = fr.get(instr.X)

	case *ssa.ChangeType:
		fr.env[instr] = fr.get(instr.X) // (can't fail)

	case *ssa.Convert:
		fr.env[instr] = fr.conv(instr)

	case *ssa.SliceToArrayPointer:
		fr.env[instr] = sliceToArrayPointer(instr.Type(), instr.X.Type(), fr.get(instr.X))

	case *ssa.MakeInterface:
		fr.env[instr] = iface{t: instr.X.Type(), v: fr.get(instr.X)}

	case *ssa.Extract:
		fr.env[instr] = fr.get(instr.Tuple).(tuple)[instr.Index]

	case *ssa.Slice:
		fr.env[instr] = fr.slice(instr)

	case *ssa.Return:
		switch len(instr.Results) {
		case 0:
		case 1:
			fr.result = fr.get(instr.Results[0])
		default:
			var res []value
			for _, r := range instr.Results {
				res = append(res, fr.get(r))
			}
			fr.result = tuple(res)
		}
		fr.block = nil
		return kReturn

	case *ssa.RunDefers:
		fr.runDefers()

	case *ssa.Panic:
		panic(targetPanic{fr.get(instr.X)})

	case *ssa.Send:
		fr.get(instr.Chan).(chan value) <- fr.get(instr.X)

	case *ssa.Store:
		store(deref(instr.Addr.Type()), fr.get(instr.Addr).(*value), fr.get(instr.Val))

	case *ssa.If:
		succ := 1
		if fr.condBool(fr.get(instr.Cond)) {
			succ = 0
		}
		fr.prevBlock, fr.block = fr.block, fr.block.Succs[succ]
		return kJump

	case *ssa.Jump:
		fr.prevBlock, fr.block = fr.block, fr.block.Succs[0]
		return kJump

	case *ssa.Defer:
		fn, args := prepareCall(fr, &instr.Call)
		defers := &fr.defers
		if into := fr.get(instr.DeferStack); into != nil {
			defers = into.(**deferred)
		}
		*defers = &deferred{
			fn:    fn,
			args:  args,
			instr: instr,
			tail:  *defers,
		}

	case *ssa.Go:
		unsupported("go statement in %s", fr.fn)

	case *ssa.MakeChan:
		fr.env[instr] = make(chan value, asInt64(fr.get(instr.Size)))

	case *ssa.Alloc:
		var addr *value
		if instr.Heap {
			// new
			addr = new(value)
			fr.env[instr] = addr
		} else {
			// local
			addr = fr.env[instr].(*value)
		}
		*addr = zero(deref(instr.Type()))

	case *ssa.MakeSlice:
		slice := make([]value, fr.concInt(fr.get(instr.Cap)))
		tElt := instr.Type().Underlying().(*types.Slice).Elem()
		for i := range slice {
			slice[i] = zero(tElt)
		}
		fr.env[instr] = slice[:fr.concInt(fr.get(instr.Len))]

	case *ssa.MakeMap:
		var reserve int64
		if instr.Reserve != nil {
			reserve = asInt64(fr.get(instr.Reserve))
		}
		if !fitsInt(reserve, fr.i.sizes) {
			panic(fmt.Sprintf("ssa.MakeMap.Reserve value %d does not fit in int", reserve))
		}
		fr.env[instr] = makeMap(instr.Type().Underlying().(*types.Map).Key(), reserve)

	case *ssa.Range:
		fr.env[instr] = fr.rangeIter(fr.get(instr.X))

	case *ssa.Next:
		fr.env[instr] = fr.get(instr.Iter).(iter).next()

	case *ssa.FieldAddr:
		fr.env[instr] = &(*fr.get(instr.X).(*value)).(structure)[instr.Field]

	case *ssa.Field:
		fr.env[instr] = fr.get(instr.X).(structure)[instr.Field]

	case *ssa.IndexAddr:
		x := fr.get(instr.X)
		if si, ok := fr.get(instr.Index).(symInt); ok && onlyLoaded(instr) {
			// table read at a symbolic index: defer to the load
			var elems []value
			switch x := x.(type) {
			case []value:
				elems = x
			case *value:
				elems = (*x).(array)
			}
			fr.env[instr] = &lazyIndex{elems: elems, idx: si}
			break
		}
		idx := fr.concInt(fr.get(instr.Index))
		switch x := x.(type) {
		case []value:
			fr.env[instr] = &x[idx]
		case *value: // *array
			fr.env[instr] = &(*x).(array)[idx]
		default:
			panic(fmt.Sprintf("unexpected x type in IndexAddr: %T", x))
		}

	case *ssa.Index:
		fr.env[instr] = fr.index(instr)

	case *ssa.Lookup:
		fr.env[instr] = fr.mapLookup(instr, fr.get(instr.X), fr.get(instr.Index))

	case *ssa.MapUpdate:
		m := fr.get(instr.Map)
		key := fr.get(instr.Key)
		v := fr.get(instr.Value)
		switch m := m.(type) {
		case *hashmap:
			if m == nil {
				panic(targetPanic{iface{fr.i.runtimeErrorString, "assignment to entry in nil map"}})
			}
			fr.mapUpdate(m, key, v)
		default:
			panic(fmt.Sprintf("illegal map type: %T", m))
		}

	case *ssa.TypeAssert:
		fr.env[instr] = typeAssert(instr, fr.get(instr.X).(iface))

	case *ssa.MakeClosure:
		var bindings []value
		for _, binding := range instr.Bindings {
			bindings = append(bindings, fr.get(binding))
		}
		fr.env[instr] = &closure{instr.Fn.(*ssa.Function), bindings}

	case *ssa.Phi:
		log.Fatal("unreachable") // phis are processed at block entry

	case *ssa.Select:
		var cases []reflect.SelectCase
		if !instr.Blocking {
			cases = append(cases, reflect.SelectCase{
				Dir: reflect.SelectDefault,
			})
		}
		for _, state := range instr.States {
			var dir reflect.SelectDir
			if state.Dir == types.RecvOnly {
				dir = reflect.SelectRecv
			} else {
				dir = reflect.SelectSend
			}
			var send reflect.Value
			if state.Send != nil {
				send = reflect.ValueOf(fr.get(state.Send))
			}
			cases = append(cases, reflect.SelectCase{
				Dir:  dir,
				Chan: reflect.ValueOf(fr.get(state.Chan)),
				Send: send,
			})
		}
		chosen, recv, recvOk := reflect.Select(cases)
		if !instr.Blocking {
			chosen-- // default case should have index -1.
		}
		r := tuple{chosen, recvOk}
		for i, st := range instr.States {
			if st.Dir == types.RecvOnly {
				var v value
				if i == chosen && recvOk {
					// No need to copy since send makes an unaliased copy.
					v = recv.Interface().(value)
				} else {
					v = zero(st.Chan.Type().Underlying().(*types.Chan).Elem())
				}
				r = append(r, v)
			}
		}
		fr.env[instr] = r

	default:
		panic(fmt.Sprintf("unexpected instruction: %T", instr))
	}

	// if val, ok := instr.(ssa.Value); ok {
	// 	fmt.Println(toString(fr.env[val])) // debugging
	// }

	return kNext
}

// prepareCall determines the function value and argument values for a
// goRuntimeError is a runtime.Error raised on behalf of the target program.
type goRuntimeError string

func (e goRuntimeError) Error() string { return string(e) }
func (e goRuntimeError) RuntimeError() {}

// function call in a Call, Go or Defer instruction, performing
// interface method lookup if needed.
func prepareCall(fr *frame, call *ssa.CallCommon) (fn value, args []value) {
	v := fr.get(call.Value)
	if call.Method == nil {
		// Function call.
		fn = v
	} else {
		// Interface method invocation.
		recv := v.(iface)
		if recv.t == nil {
			// as in Go: a runtime panic of the target program, not an engine failure
			panic(goRuntimeError("invalid memory address or nil pointer dereference (method " + call.Method.Name() + " invoked on nil interface)"))
		}
		if f := lookupMethod(fr.i, recv.t, call.Method); f == nil {
			// Unreachable in well-typed programs.
			panic(fmt.Sprintf("method set for dynamic type %v does not contain %s", recv.t, call.Method))
		} else {
			fn = f
		}
		args = append(args, recv.v)
	}
	for _, arg := range call.Args {
		args = append(args, fr.get(arg))
	}
	return
}

// call interprets a call to a function (function, builtin or closure)
// fn with arguments args, returning its result.
// callpos is the position of the callsite.
func call(i *interpreter, caller *frame, callpos token.Pos, fn value, args []value) value {
	switch fn := fn.(type) {
	case *ssa.Function:
		if fn == nil {
			panic("call of nil function") // nil of func type
		}
		return callSSA(i, caller, callpos, fn, args, nil)
	case *closure:
		return callSSA(i, caller, callpos, fn.Fn, args, fn.Env)
	case *ssa.Builtin:
		return callBuiltin(caller, fn, args)
	}
	panic(fmt.Sprintf("cannot call %T", fn))
}

func loc(fset *token.FileSet, pos token.Pos) string {
	if pos == token.NoPos {
		return ""
	}
	return " at " + fset.Position(pos).String()
}

// callSSA interprets a call to function fn with arguments args,
// and lexical environment env, returning its result.
// callpos is the position of the callsite.
func callSSA(i *interpreter, caller *frame, callpos token.Pos, fn *ssa.Function, args []value, env []value) value {
	if i.mode&EnableTracing != 0 {
		fset := fn.Prog.Fset
		// TODO(adonovan): fix: loc() lies for external functions.
		fmt.Fprintf(os.Stderr, "Entering %s%s.\n", fn, loc(fset, fn.Pos()))
		suffix := ""
		if caller != nil {
			suffix = ", resuming " + caller.fn.String() + loc(fset, callpos)
		}
		defer fmt.Fprintf(os.Stderr, "Leaving %s%s.\n", fn, suffix)
	}
	fr := &frame{
		i:      i,
		caller: caller, // for panic/recover
		fn:     fn,
	}
	if repl, ok := i.intercept[fn]; ok {
		i.ex.noteStub(fn.String())
		if ext, ok := repl.(externalFn); ok {
			return ext(fr, args)
		}
		return call(i, caller, callpos, repl, args)
	}
	if fn.Parent() == nil {
		if ext := i.lookupIntrinsic(fn); ext != nil {
			return ext(fr, args)
		}
	}
	return callSSABody(i, caller, callpos, fn, args, env)
}

// callSSABody interprets fn's own body.
func callSSABody(i *interpreter, caller *frame, callpos token.Pos, fn *ssa.Function, args []value, env []value) value {
	fr := &frame{
		i:      i,
		caller: caller, // for panic/recover
		fn:     fn,
	}
	if fn.Synthetic == "package initializer" && !i.initBusy[fn.Pkg] {
		// package initialisation is lazy (see initPkg)
		return nil
	}
	// Packages are built lazily and concurrently by several workers: never
	// look at fn.Blocks before the owning package's Build has returned.
	i.buildFunc(fn)
	if fn.Blocks == nil {
		(&frame{i: i, caller: caller, fn: fn}).unsupportedAt("no code for function: %s", fn.String())
	}
	i.callDepth++
	if i.callDepth > 4000 {
		unsupported("call depth exceeded in %s", fn.String())
	}
	defer func() { i.callDepth-- }()
	i.noteFunc(fn)

	// generic function body?
	if fn.TypeParams().Len() > 0 && len(fn.TypeArgs()) == 0 {
		panic("interp requires ssa.BuilderMode to include InstantiateGenerics to execute generics")
	}

	fr.env = make(map[ssa.Value]value)
	fr.block = fn.Blocks[0]
	fr.locals = make([]value, len(fn.Locals))
	for i, l := range fn.Locals {
		fr.locals[i] = zero(deref(l.Type()))
		fr.env[l] = &fr.locals[i]
	}
	for i, p := range fn.Params {
		fr.env[p] = args[i]
	}
	for i, fv := range fn.FreeVars {
		fr.env[fv] = env[i]
	}
	for fr.block != nil {
		runFrame(fr)
	}
	// Destroy the locals to avoid accidental use after return.
	for i := range fn.Locals {
		fr.locals[i] = bad{}
	}
	return fr.result
}

// runFrame executes SSA instructions starting at fr.block and
// continuing until a return, a panic, or a recovered panic.
//
// After a panic, runFrame panics.
//
// After a normal return, fr.result contains the result of the call
// and fr.block is nil.
//
// A recovered panic in a function without named return parameters
// (NRPs) becomes a normal return of the zero value of the function's
// result type.
//
// After a recovered panic in a function with NRPs, fr.result is
// undefined and fr.block contains the block at which to resume
// control.
func runFrame(fr *frame) {
	defer func() {
		if fr.block == nil {
			return // normal return
		}
		if fr.i.mode&DisableRecover != 0 {
			return // let interpreter crash
		}
		fr.panicking = true
		fr.panic = recover()
		if pa, ok := fr.panic.(pathAbort); ok {
			panic(pa)
		}
		if fr.i.panicStack == nil {
			// remember where the target program was when it first panicked
			for f := fr; f != nil && len(fr.i.panicStack) < 30; f = f.caller {
				pos := ""
				if f.cur != nil {
					pos = fr.i.prog.Fset.Position(f.cur.Pos()).String()
				}
				fr.i.panicStack = append(fr.i.panicStack, f.fn.String()+" "+pos)
			}
		}
		if fr.i.mode&EnableTracing != 0 {
			fmt.Fprintf(os.Stderr, "Panicking: %T %v.\n", fr.panic, fr.panic)
		}
		fr.runDefers()
		fr.block = fr.fn.Recover
	}()

	for {
		if fr.i.mode&EnableTracing != 0 {
			fmt.Fprintf(os.Stderr, ".%s:\n", fr.block)
		}

		nonPhis := executePhis(fr)
		for _, instr := range nonPhis {
			if fr.i.mode&EnableTracing != 0 {
				if v, ok := instr.(ssa.Value); ok {
					fmt.Fprintln(os.Stderr, "\t", v.Name(), "=", instr)
				} else {
					fmt.Fprintln(os.Stderr, "\t", instr)
				}
			}
			fr.cur = instr
			fr.i.ps.steps++
			if fr.i.ps.steps > fr.i.ex.StepBudget {
				panic(pathAbort{"budget", "step budget exceeded in " + fr.fn.String()})
			}
			if visitInstr(fr, instr) == kReturn {
				return
			}
			// Inv: kNext (continue) or kJump (last instr)
		}
	}
}

// executePhis executes the phi-nodes at the start of the current
// block and returns the non-phi instructions.
func executePhis(fr *frame) []ssa.Instruction {
	firstNonPhi := -1
	for i, instr := range fr.block.Instrs {
		if _, ok := instr.(*ssa.Phi); !ok {
			firstNonPhi = i
			break
		}
	}
	// Inv: 0 <= firstNonPhi; every block contains a non-phi.

	nonPhis := fr.block.Instrs[firstNonPhi:]
	if firstNonPhi > 0 {
		phis := fr.block.Instrs[:firstNonPhi]
		// Execute parallel assignment of phis.
		//
		// See "the swap problem" in Briggs et al's "Practical Improvements
		// to the Construction and Destruction of SSA Form" for discussion.
		predIndex := slices.Index(fr.block.Preds, fr.prevBlock)
		fr.phitemps = fr.phitemps[:0]
		for _, phi := range phis {
			phi := phi.(*ssa.Phi)
			if fr.i.mode&EnableTracing != 0 {
				fmt.Fprintln(os.Stderr, "\t", phi.Name(), "=", phi)
			}
			fr.phitemps = append(fr.phitemps, fr.get(phi.Edges[predIndex]))
		}
		for i, phi := range phis {
			fr.env[phi.(*ssa.Phi)] = fr.phitemps[i]
		}
	}
	return nonPhis
}

// doRecover implements the recover() built-in.
func doRecover(caller *frame) value {
	// recover() must be exactly one level beneath the deferred
	// function (two levels beneath the panicking function) to
	// have any effect.  Thus we ignore both "defer recover()" and
	// "defer f() -> g() -> recover()".
	if caller.i.mode&DisableRecover == 0 &&
		caller != nil && !caller.panicking &&
		caller.caller != nil && caller.caller.panicking {
		caller.caller.panicking = false
		p := caller.caller.panic
		caller.caller.panic = nil

		// TODO(adonovan): support runtime.Goexit.
		switch p := p.(type) {
		case targetPanic:
			// The target program explicitly called panic().
			return p.v
		case runtime.Error:
			// The interpreter encountered a runtime error.
			return iface{caller.i.runtimeErrorString, p.Error()}
		case string:
			// The interpreter explicitly called panic().
			return iface{caller.i.runtimeErrorString, p}
		case error:
			return iface{caller.i.runtimeErrorString, p.Error()}
		default:
			panic(fmt.Sprintf("unexpected panic type %T in target call to recover()", p))
		}
	}
	return iface{}
}

