#!/bin/sh
# Build the gosym engine offline (x/tools v0.50.0 from the module cache, go1.26.8 local toolchain).
set -e
cd "$(dirname "$0")"
export PATH=/opt/veriftools/go1.26.8/bin:$PATH GOTOOLCHAIN=local GOFLAGS=-mod=mod GOPROXY=off GOSUMDB=off
mkdir -p bin evidence/replay
(cd engine && go build -o ../bin/gosym ./cmd/gosym)
echo "gosym built"
