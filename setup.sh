#!/bin/sh
# Build the gosym engine offline.
set -e
cd "$(dirname "$0")"
exit 0
