package ssh

// Model of the SSH signature primitive (see internal/zzsig).

import (
	"context"
	"crypto"
	"errors"
	"fmt"

	"github.com/gittuf/gittuf/internal/zzsig"
	"github.com/secure-systems-lab/go-securesystemslib/signerverifier"
)

func ZZNewVerifierFromKey(key *signerverifier.SSLibKey) (*Verifier, error) {
	if key.KeyType != KeyType {
		return nil, fmt.Errorf("wrong keyType: %s", key.KeyType)
	}
	return &Verifier{keyID: key.KeyID}, nil
}

func ZZVerify(v *Verifier, _ context.Context, data []byte, sig []byte) error {
	if zzsig.Check(v.keyID, data, sig) {
		return nil
	}
	return errors.New("failed to verify ssh signature (model)")
}

func ZZPublic(v *Verifier) crypto.PublicKey { return nil }
