package sigstore

// Model of the Sigstore signature primitive (see internal/zzsig).

import (
	"context"
	"errors"

	"github.com/gittuf/gittuf/internal/zzsig"
)

func ZZVerify(v *Verifier, _ context.Context, data, sig []byte) error {
	if zzsig.Check(v.identity+"::"+v.issuer, data, sig) {
		return nil
	}
	return errors.New("failed to verify sigstore signature (model)")
}
