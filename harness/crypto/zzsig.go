// Package zzsig defines the modelled signature format used by the gosym
// harnesses: a signature is valid under a key iff it was made with that key
// over exactly those bytes (EUF-CMA as a format).
package zzsig

// Make returns the modelled signature by keyID over data.
func Make(keyID string, data []byte) []byte {
	return []byte("zzsig|" + keyID + "|" + string(data))
}

// Check reports whether sig is the modelled signature by keyID over data.
func Check(keyID string, data, sig []byte) bool {
	return string(sig) == "zzsig|"+keyID+"|"+string(data)
}
