package gpg

// Model of the GPG signature primitive (see internal/zzsig).

import (
	"context"
	"crypto"
	"errors"

	"github.com/gittuf/gittuf/internal/zzsig"
	"github.com/secure-systems-lab/go-securesystemslib/signerverifier"
)

func ZZNewVerifierFromKey(key *signerverifier.SSLibKey) (*Verifier, error) {
	return &Verifier{metadataKey: key, keyID: key.KeyID}, nil
}

func ZZVerify(v *Verifier, _ context.Context, data []byte, sig []byte) error {
	if zzsig.Check(v.keyID, data, sig) {
		return nil
	}
	return errors.New("failed to verify gpg signature (model)")
}

func ZZPublic(v *Verifier) crypto.PublicKey { return nil }
