package gitobject

// Model of gitsign (Sigstore) verification of Git object signatures.

import (
	"context"
	"errors"

	"github.com/gittuf/gittuf/internal/zzsig"
	"github.com/secure-systems-lab/go-securesystemslib/signerverifier"
)

func ZZVerifyGitsignSignature(_ context.Context, key *signerverifier.SSLibKey, data, signature []byte, _ string) error {
	if zzsig.Check(key.KeyVal.Identity+"::"+key.KeyVal.Issuer, data, signature) {
		return nil
	}
	return errors.New("gitsign signature does not verify (model)")
}
