package policy

// C06 harness: the rules consulted for a path are exactly those of the
// documented delegation walk.

import (
	"sort"
	"strconv"
	"strings"

	"github.com/gittuf/gittuf/internal/common/set"
	"github.com/gittuf/gittuf/internal/signerverifier/dsse"
	sslibdsse "github.com/gittuf/gittuf/internal/third_party/go-securesystemslib/dsse"
	"github.com/gittuf/gittuf/internal/tuf"
	tufv01 "github.com/gittuf/gittuf/internal/tuf/v01"
	tufv02 "github.com/gittuf/gittuf/internal/tuf/v02"
	verif "github.com/gittuf/gittuf/internal/zzverif"
)

type zz6Rule struct {
	name        string
	matches     bool
	terminating bool
	threshold   int
	key         string
}

// zz6FileName: file 0 is the primary rule file.
func zz6FileName(i int) string {
	if i == 0 {
		return TargetsRoleName
	}
	return "f" + strconv.Itoa(i)
}

func zz6Walk(files map[string][]zz6Rule, file string, seen map[string]bool, out *[]string) {
	for _, r := range files[file] {
		if !r.matches {
			continue
		}
		*out = append(*out, r.name+"|"+strconv.Itoa(r.threshold)+"|"+r.key)
		_, hasFile := files[r.name]
		if hasFile {
			if !seen[r.name] {
				seen[r.name] = true
				zz6Walk(files, r.name, seen, out)
			}
			if r.terminating {
				// a matching terminating rule with a delegated rule file
				// cuts off the later rules of its own file (whether or not
				// that file was already entered through another rule)
				return
			}
		}
	}
}

func HarnessC06() {
	nfiles := verif.Bound("files", 3, 3)
	nrules := verif.Bound("rules", 2, 2)
	files := map[string][]zz6Rule{}
	matches := map[string]bool{}
	var envs = map[string]*sslibdsse.Envelope{}
	exists := map[int]bool{0: true}
	for f := 1; f < nfiles; f++ {
		exists[f] = verif.ConcreteBool(verif.Bool("file" + strconv.Itoa(f) + ".exists"))
	}
	serial := 0
	for f := 0; f < nfiles; f++ {
		if !exists[f] {
			continue
		}
		md := tufv02.NewTargetsMetadata()
		md.Delegations.Principals = map[string]tuf.Principal{}
		var roles []*tufv02.Delegation
		var rules []zz6Rule
		n := verif.Concrete(verif.IntRange("file"+strconv.Itoa(f)+".nrules", 0, nrules))
		for j := 0; j < n; j++ {
			p := "r" + strconv.Itoa(f) + strconv.Itoa(j)
			serial++
			r := zz6Rule{threshold: serial, key: "key-" + p}
			// the rule's name decides whether it delegates: "f<k>" names
			// rule file k (which may or may not exist), anything else is plain
			to := verif.Concrete(verif.Choice(p+".delegates", nfiles))
			if to == 0 {
				r.name = p
			} else {
				r.name = zz6FileName(to)
			}
			// two rules with the same name share one matches bit
			if b, ok := matches[r.name]; ok {
				r.matches = b
			} else {
				r.matches = verif.Bool(r.name + ".matches")
				matches[r.name] = r.matches
			}
			r.terminating = verif.Bool(p + ".terminating")
			k := &tufv01.Key{}
			k.KeyID = r.key
			k.KeyType = "ssh"
			md.Delegations.Principals[r.key] = k
			roles = append(roles, &tufv02.Delegation{Name: r.name, Paths: []string{"git:refs/heads/*"}, Terminating: r.terminating,
				Role: tufv02.Role{PrincipalIDs: set.NewSetFromItems(r.key), Threshold: r.threshold}})
			rules = append(rules, r)
		}
		roles = append(roles, tufv02.AllowRule())
		md.Delegations.Roles = roles
		env, err := dsse.CreateEnvelope(md)
		if err != nil {
			panic(err)
		}
		envs[zz6FileName(f)] = env
		files[zz6FileName(f)] = rules
	}
	tufv02.ZZMatches = matches

	state := &State{Metadata: &StateMetadata{TargetsEnvelope: envs[TargetsRoleName], DelegationEnvelopes: map[string]*sslibdsse.Envelope{}}}
	for name, env := range envs {
		if name != TargetsRoleName {
			state.Metadata.DelegationEnvelopes[name] = env
		}
	}

	verifiers, err := state.FindVerifiersForPath("git:refs/heads/main")
	verif.Assert(err == nil, "walk-terminates-without-error")
	if err != nil {
		return
	}
	var got []string
	for _, v := range verifiers {
		ids := v.TrustedPrincipalIDs().Contents()
		sort.Strings(ids)
		got = append(got, v.Name()+"|"+strconv.Itoa(v.Threshold())+"|"+strings.Join(ids, ","))
	}
	var want []string
	zz6Walk(files, TargetsRoleName, map[string]bool{TargetsRoleName: true}, &want)

	sort.Strings(got)
	sort.Strings(want)
	verif.Assert(strings.Join(got, ";") == strings.Join(want, ";"), "consulted-rules-are-exactly-the-walk")
	if len(want) == 0 {
		verif.Reach("unprotected")
		verif.Assert(len(verifiers) == 0, "unmatched-path-is-unprotected")
	} else {
		verif.Reach("protected")
		verif.Assert(len(verifiers) > 0, "matched-path-is-never-unprotected")
	}
}
