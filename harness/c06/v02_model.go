package v02

// ZZMatches lets a harness decide Delegation.Matches per rule name with a
// (symbolic) bit, so that the delegation walk, not fnmatch, is what the
// solver explores.  fnmatch itself is checked separately on a concrete table.
var ZZMatches map[string]bool

func ZZMatchesModel(d *Delegation, target string) bool {
	return ZZMatches[d.Name]
}
