package v02

// C06 (pattern forms): Delegation.Matches -- gittuf's use of fnmatch with
// flags 0 -- on the three pattern forms the property names (literal,
// prefix-glob, catch-all) over the git: and file: schemes, against the plain
// definition: a literal matches itself only, "<prefix>*" matches exactly the
// paths that start with <prefix> (the star also crossing '/'), "*" matches
// everything.

import (
	"unicode/utf8"

	verif "github.com/gittuf/gittuf/internal/zzverif"
)

func zz6Sym(name string, maxLen int, plain bool) string {
	n := verif.Concrete(verif.IntRange(name+".len", 0, maxLen))
	b := verif.Bytes(name, n)
	for _, c := range b {
		verif.Assume(c != 0)
		if plain {
			// pattern text without glob metacharacters
			verif.Assume(c != '*' && c != '?' && c != '[' && c != '\\')
		}
	}
	return string(b)
}

func HarnessC06Match() {
	scheme := verif.OneOf("scheme", "git:refs/heads/", "file:src/")
	body := zz6Sym("pattern.body", verif.Bound("patternbytes", 1, 2), true)
	var pattern string
	form := verif.Concrete(verif.Choice("form", 4))
	switch form {
	case 0:
		pattern = scheme + body // literal
	case 1:
		pattern = scheme + body + "*" // prefix glob
	case 2:
		pattern = "*" // catch-all
	default:
		pattern = scheme + "*" // everything under the scheme prefix
	}
	pathScheme := verif.OneOf("path.scheme", "git:refs/heads/", "file:src/", "git:refs/tags/")
	path := pathScheme + zz6Sym("path.tail", verif.Bound("pathbytes", 2, 3), false)

	d := &Delegation{Name: "r", Paths: []string{pattern}}
	got := d.Matches(path)

	hasPrefix := func(s, p string) bool {
		if len(s) < len(p) {
			return false
		}
		return s[:len(p)] == p
	}
	var want bool
	switch form {
	case 0:
		want = path == pattern
	case 1:
		want = hasPrefix(path, scheme+body)
	case 2:
		want = true
	default:
		want = hasPrefix(path, scheme)
	}
	if got {
		verif.Reach("matches")
	} else {
		verif.Reach("does-not-match")
	}
	// Known finding C06-K1: fnmatch compares runes, and every byte sequence
	// that is not valid UTF-8 decodes to U+FFFD: a pattern byte that is not
	// valid UTF-8 matches a different invalid byte of the path, and a pattern
	// that stops in the middle of a multi-byte character does not match paths
	// that continue that character.  Only texts that are not valid UTF-8 are
	// affected.
	k1 := !(utf8.ValidString(body) && utf8.ValidString(path)) && got != want
	verif.Witness("C06-K1", k1)
	verif.Assert(got == want || k1, "Matches-agrees-with-the-pattern-form's-definition")
}
