package rsl

import (
	"strconv"

	zzmem "github.com/gittuf/gittuf/internal/zzmem"
	verif "github.com/gittuf/gittuf/internal/zzverif"
	"github.com/gittuf/gittuf/pkg/githash"
)

// HarnessC04FirstForCommit: GetFirstReferenceUpdaterEntryForCommit against the
// plain scan its documentation describes: the oldest entry for a non-gittuf
// reference whose target is the commit or a descendant of it.
func HarnessC04FirstForCommit() {
	newRSLCache()
	s := zzmem.New(4)
	// commits: c0 <- c1, c2 unrelated
	tree := s.RawEmptyTree()
	c0 := s.RawCommit("", tree, nil, "c0", zzmem.Unsigned)
	c1 := s.RawCommit("", tree, []githash.Hash{c0}, "c1", zzmem.Unsigned)
	c2 := s.RawCommit("", tree, nil, "c2", zzmem.Unsigned)
	commits := []githash.Hash{c0, c1, c2}
	type rec struct {
		id     githash.Hash
		target int
		gittuf bool
	}
	var log []rec
	n := verif.Concrete(verif.IntRange("entries", 1, verif.Bound("entries", 3, 4)))
	for i := 0; i < n; i++ {
		p := "e" + strconv.Itoa(i)
		ref := verif.OneOf(p+".ref", "refs/heads/main", "refs/heads/feature", "refs/gittuf/policy")
		t := verif.Concrete(verif.Choice(p+".target", 3))
		if err := NewReferenceEntry(ref, commits[t]).Commit(s, false); err != nil {
			panic(err)
		}
		log = append(log, rec{s.Ref(Ref), t, ref == "refs/gittuf/policy"})
	}
	q := verif.Concrete(verif.Choice("commit", 3))
	knows := func(target, commit int) bool { // c1 descends from c0
		return target == commit || (target == 1 && commit == 0)
	}
	var want githash.Hash
	for _, r := range log {
		if !r.gittuf && knows(r.target, q) {
			want = r.id
			break
		}
	}
	got, _, err := GetFirstReferenceUpdaterEntryForCommit(s, commits[q])
	if want == nil {
		verif.Reach("no-record")
		verif.Assert(err != nil, "commit-never-recorded:error")
		return
	}
	verif.Reach("found")
	verif.Assert(err == nil && got.GetID().Equal(want), "first-entry-for-commit-is-the-oldest-entry-whose-target-contains-it")
}
