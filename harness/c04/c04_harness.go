package rsl

// C04 harnesses: RSL queries match a plain newest-to-oldest scan of the chain
// and fail closed on tampering.
//
// The log is built directly: commits are placed in the in-memory store and
// the parsed entries are injected into the package's entry cache, so that
// reference names, annotation targets, skip flags and entry numbers can stay
// symbolic (entry text is the subject of C14, not of this check).

import (
	"errors"
	"strings"

	zzmem "github.com/gittuf/gittuf/internal/zzmem"
	verif "github.com/gittuf/gittuf/internal/zzverif"
	"github.com/gittuf/gittuf/pkg/githash"
)

// all alternatives have the same length so that the choice stays symbolic
var zz4Refs = []string{
	"refs/heads/main00000000000",
	"refs/heads/feature00000000",
	"refs/gittuf/policy0000000x",
	"refs/gittuf/policy-staging",
}

var zz4Ups = []string{"https://example.com/upA", "https://example.com/upB"}

const (
	zz4Ref = iota
	zz4Ann
	zz4Prop
)

const (
	zz4OK = iota
	zz4NotFound
	zz4Branch
	zz4Invalid
	zz4Options
	zz4CannotUseNumber
	zz4InvalidUntil
	zz4Other
)

type zz4E struct {
	kind        int
	refIdx      int
	ref         string
	upIdx       int
	up          string
	t1, t2      int // annotation targets (positions), symbolic
	skip        bool
	number      uint64
	id          githash.Hash
	extraParent bool
	garbage     bool
	entry       Entry
}

func zz4Classify(err error) int {
	switch {
	case err == nil:
		return zz4OK
	case errors.Is(err, ErrRSLEntryNotFound):
		return zz4NotFound
	case errors.Is(err, ErrRSLBranchDetected):
		return zz4Branch
	case errors.Is(err, ErrInvalidRSLEntry):
		return zz4Invalid
	case errors.Is(err, ErrInvalidGetLatestReferenceUpdaterEntryOptions):
		return zz4Options
	case errors.Is(err, ErrCannotUseEntryNumberFilter):
		return zz4CannotUseNumber
	case errors.Is(err, ErrInvalidUntilEntryNumberCondition):
		return zz4InvalidUntil
	}
	return zz4Other
}

// zz4Build creates a log of n entries.  tamper: 0 none, 1 extra parent,
// 2 garbage commit, 3 arbitrary number -- applied at position tpos.
func zz4Build(n int, legacy int, tamper int, tpos int) (*zzmem.Store, []zz4E) {
	newRSLCache() // the process-wide entry cache must not carry entries of an earlier (native) run
	store := zzmem.New(4)
	empty := store.RawEmptyTree()
	log := make([]zz4E, n)
	for i := 0; i < n; i++ {
		p := "e" + string(rune('0'+i))
		e := &log[i]
		e.id = zz4ID(i)
		if i == 0 {
			e.kind = verif.Concrete(verif.Choice(p+".kind", 2)) * 2 // first entry: reference or propagation
		} else {
			e.kind = verif.Concrete(verif.Choice(p+".kind", 3))
		}
		if i < legacy {
			e.number = 0
		} else {
			e.number = uint64(i - legacy + 1)
		}
		if tamper == 3 && i == tpos {
			e.number = verif.Uint64(p + ".number")
		}
		switch e.kind {
		case zz4Ref:
			e.refIdx = verif.Choice(p+".ref", len(zz4Refs))
			e.ref = verif.PickStr(e.refIdx, zz4Refs...)
			e.entry = &ReferenceEntry{ID: e.id, RefName: e.ref, TargetID: zz4Target(i), Number: e.number}
		case zz4Prop:
			e.refIdx = verif.Choice(p+".ref", len(zz4Refs))
			e.ref = verif.PickStr(e.refIdx, zz4Refs...)
			e.upIdx = verif.Choice(p+".up", len(zz4Ups))
			e.up = verif.PickStr(e.upIdx, zz4Ups...)
			e.entry = &PropagationEntry{ID: e.id, RefName: e.ref, TargetID: zz4Target(i), UpstreamRepository: e.up, UpstreamEntryID: zz4Target(100 + i), Number: e.number}
		default:
			e.t1 = verif.IntRange(p+".t1", 0, i-1)
			e.t2 = verif.IntRange(p+".t2", 0, i-1)
			e.skip = verif.Bool(p + ".skip")
			id1, id2 := zz4ID(0), zz4ID(0)
			id1[19], id2[19] = byte(e.t1), byte(e.t2)
			e.entry = &AnnotationEntry{ID: e.id, RSLEntryIDs: []githash.Hash{id1, id2}, Skip: e.skip, Number: e.number}
		}
		var parents []githash.Hash
		if i > 0 {
			parents = []githash.Hash{zz4ID(i - 1)}
		}
		if tamper == 1 && i == tpos && i > 0 {
			e.extraParent = true
			parents = append(parents, zz4ID(0))
		}
		msg := "not parsed: entry is injected in the cache"
		if tamper == 2 && i == tpos {
			e.garbage = true
			msg = "this commit is not an RSL entry"
		} else {
			cache.setEntry(e.id, e.entry)
		}
		store.PutCommit(e.id, empty, parents, msg, zzmem.Unsigned)
	}
	store.SetRef(Ref, zz4ID(n-1))
	return store, log
}

// zz4Step is the reference definition of "step to the parent of entry i".
func zz4Step(log []zz4E, i int) (int, int) {
	if i == 0 {
		return -1, zz4NotFound
	}
	if log[i].extraParent {
		return -1, zz4Branch
	}
	if log[i-1].garbage {
		return -1, zz4Invalid
	}
	c, p := log[i].number, log[i-1].number
	if c == 0 || c == 1 {
		if p != 0 {
			return -1, zz4Invalid
		}
	} else if p != c-1 {
		return -1, zz4Invalid
	}
	return i - 1, zz4OK
}

func zz4Refers(a *zz4E, i int) bool { return a.t1 == i || a.t2 == i }

func zz4SkippedBy(log []zz4E, seen []int, i int) bool {
	for _, a := range seen {
		if zz4Refers(&log[a], i) && log[a].skip {
			return true
		}
	}
	return false
}

func zz4Filter(log []zz4E, seen []int, i int) []int {
	var out []int
	for _, a := range seen {
		if zz4Refers(&log[a], i) {
			out = append(out, a)
		}
	}
	return out
}

type zz4Opts struct {
	ref        string
	beforePos  int // -1 unset; position whose id is the anchor; n = an id not in the log
	beforeNum  uint64
	untilPos   int
	untilNum   uint64
	unskipped  bool
	nonGittuf  bool
	isRefEntry bool
	propRepo   string
}

// zz4OracleLatest: the documented meaning of GetLatestReferenceUpdaterEntry
// as a plain scan (options.go: Before* exclusive, Until* inclusive).
func zz4OracleLatest(log []zz4E, o zz4Opts) (int, []int, int) {
	n := len(log)
	if o.beforePos >= 0 && o.beforeNum != 0 {
		return -1, nil, zz4Options
	}
	if o.untilPos >= 0 && o.untilNum != 0 {
		return -1, nil, zz4Options
	}
	if o.beforeNum != 0 && o.untilNum != 0 && o.beforeNum < o.untilNum {
		return -1, nil, zz4Options
	}
	if o.isRefEntry && o.propRepo != "" {
		return -1, nil, zz4Options
	}
	i := n - 1
	if log[i].garbage {
		return -1, nil, zz4Invalid
	}
	if log[i].number == 0 {
		if o.beforeNum != 0 || o.untilNum != 0 {
			return -1, nil, zz4CannotUseNumber
		}
	} else if o.untilNum != 0 && log[i].number < o.untilNum {
		return -1, nil, zz4InvalidUntil
	}
	var seen []int
	cls := zz4OK
	if o.beforePos >= 0 || o.beforeNum != 0 {
		for !(i == o.beforePos || (log[i].number != 0 && log[i].number == o.beforeNum)) {
			if log[i].kind == zz4Ann {
				seen = append(seen, i)
			}
			i, cls = zz4Step(log, i)
			if cls != zz4OK {
				return -1, nil, cls
			}
			if log[i].number < o.untilNum {
				// the anchor lies below the until bound
				return -1, nil, zz4Options
			}
		}
		if log[i].kind == zz4Ann {
			seen = append(seen, i)
		}
		i, cls = zz4Step(log, i)
		if cls != zz4OK {
			return -1, nil, cls
		}
	}
	for {
		e := &log[i]
		if e.kind == zz4Ann {
			seen = append(seen, i)
		} else {
			m := true
			if o.ref != "" && e.ref != o.ref {
				m = false
			}
			if o.isRefEntry && e.kind != zz4Ref {
				m = false
			}
			if m && o.unskipped && e.kind == zz4Ref && zz4SkippedBy(log, seen, i) {
				m = false
			}
			if o.propRepo != "" && !(e.kind == zz4Prop && e.up == o.propRepo) {
				m = false
			}
			if o.nonGittuf && strings.HasPrefix(e.ref, gittufNamespacePrefix) {
				m = false
			}
			if m {
				return i, zz4Filter(log, seen, i), zz4OK
			}
		}
		// Until* is inclusive: the bound entry itself was just considered
		if o.untilPos >= 0 && i == o.untilPos {
			return -1, nil, zz4NotFound
		}
		if o.untilNum != 0 && e.number != 0 && e.number == o.untilNum {
			return -1, nil, zz4NotFound
		}
		i, cls = zz4Step(log, i)
		if cls != zz4OK {
			return -1, nil, cls
		}
		if o.untilNum != 0 && log[i].number < o.untilNum {
			return -1, nil, zz4NotFound
		}
	}
}

// zz4Agree asserts that the reader's error class agrees with the reference
// scan: a result where the scan defines one; the not-found error where no
// entry qualifies on an intact log; and, on a tampered log or with unusable
// options, an error of any class (fail closed) rather than a result.
func zz4Agree(cls, wantCls int, tampered bool, label string) {
	switch wantCls {
	case zz4OK:
		verif.Assert(cls == zz4OK, label+":result-expected")
	case zz4NotFound:
		if tampered {
			verif.Assert(cls != zz4OK, label+":error-expected")
		} else {
			verif.Assert(cls == zz4NotFound, label+":not-found-expected")
		}
	default:
		verif.Assert(cls != zz4OK, label+":error-expected")
	}
}

func zz4CheckAnnotations(log []zz4E, got []*AnnotationEntry, want []int, label string) {
	verif.Assert(len(got) == len(want), label+"-count")
	if len(got) != len(want) {
		return
	}
	for k := range want {
		verif.Assert(got[k].ID.Equal(log[want[k]].id), label+"-id")
	}
}

func zz4Shape(tampered bool) (int, int, int, int) { return zz4ShapeMax(tampered, verif.Bound("entries", 3, 4)) }

func zz4ShapeMax(tampered bool, maxN int) (int, int, int, int) {
	if tampered {
		maxN = 3 // the tampered variants keep the 3-entry logs in both tiers
	}
	n := verif.Concrete(verif.IntRange("n", 1, maxN))
	legacy := 0
	if verif.Bound("legacy", 0, 1) == 1 {
		legacy = verif.Concrete(verif.IntRange("legacy", 0, n))
	}
	tamper, tpos := 0, 0
	if tampered {
		tamper = verif.Concrete(verif.IntRange("tamper", 1, 3))
		tpos = verif.Concrete(verif.IntRange("tpos", 0, n-1))
	}
	return n, legacy, tamper, tpos
}

func zz4LatestHarness(tampered bool) {
	n, legacy, tamper, tpos := zz4Shape(tampered)
	store, log := zz4Build(n, legacy, tamper, tpos)

	var o zz4Opts
	var opts []GetLatestReferenceUpdaterEntryOption
	if verif.Bool("opt.ref") {
		o.ref = verif.PickStr(verif.Choice("opt.refidx", len(zz4Refs)), zz4Refs...)
		opts = append(opts, ForReference(o.ref))
	}
	o.beforePos, o.untilPos = -1, -1
	nb, nu := 3, 3
	if tampered {
		// quick tier: before by id only, until by number only
		nb, nu = verif.Bound("tampered.before.choices", 2, 2), verif.Bound("tampered.until.choices", 2, 2)
	}
	switch verif.Concrete(verif.Choice("opt.before", nb)) {
	case 1:
		o.beforePos = verif.IntRange("opt.beforepos", 0, n) // n = id not in the log
		id := zz4ID(0)
		id[19] = byte(o.beforePos)
		opts = append(opts, BeforeEntryID(id))
	case 2:
		o.beforeNum = verif.Uint64("opt.beforenum")
		opts = append(opts, BeforeEntryNumber(o.beforeNum))
	}
	untilKind := verif.Concrete(verif.Choice("opt.until", nu))
	if nu == 2 && untilKind == 1 {
		untilKind = 2
	}
	switch untilKind {
	case 1:
		o.untilPos = verif.IntRange("opt.untilpos", 0, n)
		id := zz4ID(0)
		id[19] = byte(o.untilPos)
		opts = append(opts, UntilEntryID(id))
	case 2:
		o.untilNum = verif.Uint64("opt.untilnum")
		opts = append(opts, UntilEntryNumber(o.untilNum))
	}
	if verif.Bool("opt.unskipped") {
		o.unskipped = true
		opts = append(opts, IsUnskipped())
	}
	if verif.Bool("opt.nongittuf") {
		o.nonGittuf = true
		opts = append(opts, ForNonGittufReference())
	}
	fewOpts := tampered && verif.Bound("tampered.fewopts", 1, 1) == 1 // kind filters are only explored on intact logs
	if !fewOpts && verif.Bool("opt.isref") {
		o.isRefEntry = true
		opts = append(opts, IsReferenceEntry())
	}
	if !fewOpts && verif.Bool("opt.prop") {
		o.propRepo = verif.PickStr(verif.Choice("opt.propidx", len(zz4Ups)), zz4Ups...)
		opts = append(opts, IsPropagationEntryForRepository(o.propRepo))
	}

	got, gotAnns, err := GetLatestReferenceUpdaterEntry(store, opts...)
	want, wantAnns, wantCls := zz4OracleLatest(log, o)
	cls := zz4Classify(err)

	zz4Agree(cls, wantCls, tampered, "latest")
	if tampered {
		// the verdict must not depend on what earlier queries left in the
		// process-wide cache: ask again, and ask a different reader
		_, _, err2 := GetLatestReferenceUpdaterEntry(store, opts...)
		zz4Agree(zz4Classify(err2), wantCls, tampered, "latest-repeated")
		_, _, err3 := GetFirstReferenceUpdaterEntryForRef(store, "")
		zz4Agree(zz4Classify(err3), zz4WalkAll(log), tampered, "first-after-latest")
	}
	if cls == zz4OK && wantCls == zz4OK {
		verif.Reach("found")
		verif.Assert(got.GetID().Equal(log[want].id), "entry")
		zz4CheckAnnotations(log, gotAnns, wantAnns, "annotations")
	} else if cls != zz4OK && wantCls != zz4OK {
		verif.Reach("error-agreed")
	}
}

func HarnessC04Latest()         { zz4LatestHarness(false) }
func HarnessC04LatestTampered() { zz4LatestHarness(true) }

// ---------------------------------------------------------------------------
// first entry / first entry for ref / non-gittuf parent

func zz4AllAnnotationsNewestFirst(log []zz4E, above int, target int) []int {
	var out []int
	for i := len(log) - 1; i > above; i-- {
		if log[i].kind == zz4Ann && zz4Refers(&log[i], target) {
			out = append(out, i)
		}
	}
	return out
}

// zz4WalkAll: class of the error (if any) met when walking the whole chain.
func zz4WalkAll(log []zz4E) int {
	i := len(log) - 1
	if log[i].garbage {
		return zz4Invalid
	}
	for i > 0 {
		var cls int
		i, cls = zz4Step(log, i)
		if cls != zz4OK {
			return cls
		}
	}
	return zz4OK
}

func zz4FirstHarness(tampered bool) {
	n, legacy, tamper, tpos := zz4Shape(tampered)
	store, log := zz4Build(n, legacy, tamper, tpos)
	ref := ""
	if verif.Bool("forref") {
		ref = verif.PickStr(verif.Choice("refidx", len(zz4Refs)), zz4Refs...)
	}
	got, gotAnns, err := GetFirstReferenceUpdaterEntryForRef(store, ref)
	cls := zz4Classify(err)

	wantCls := zz4WalkAll(log)
	want := -1
	if wantCls == zz4OK {
		for i := 0; i < n; i++ {
			if log[i].kind != zz4Ann && (ref == "" || log[i].ref == ref) {
				want = i
				break
			}
		}
		if want < 0 {
			wantCls = zz4NotFound
		}
	}
	zz4Agree(cls, wantCls, tampered, "first")
	if tampered {
		_, _, err2 := GetFirstReferenceUpdaterEntryForRef(store, ref)
		zz4Agree(zz4Classify(err2), wantCls, tampered, "first-repeated")
	}
	if cls == zz4OK && wantCls == zz4OK {
		verif.Reach("found")
		verif.Assert(got.GetID().Equal(log[want].id), "first-entry")
		zz4CheckAnnotations(log, gotAnns, zz4AllAnnotationsNewestFirst(log, want, want), "first-annotations")
	} else if cls != zz4OK && wantCls != zz4OK {
		verif.Reach("error-agreed")
	}
}

func HarnessC04First()         { zz4FirstHarness(false) }
func HarnessC04FirstTampered() { zz4FirstHarness(true) }

func zz4NonGittufParentHarness(tampered bool) {
	n, legacy, tamper, tpos := zz4Shape(tampered)
	store, log := zz4Build(n, legacy, tamper, tpos)
	at := verif.Concrete(verif.IntRange("at", 0, n-1))
	if log[at].garbage {
		return
	}
	got, gotAnns, err := GetNonGittufParentReferenceUpdaterEntryForEntry(store, log[at].entry)
	cls := zz4Classify(err)

	// reference: walk from the tip down to the parent of `at`, then on to the
	// first reference updater entry outside refs/gittuf/
	wantCls := zz4OK
	want := -1
	i := n - 1
	if log[i].garbage {
		wantCls = zz4Invalid
	}
	for wantCls == zz4OK && i > at-1 {
		if at == 0 {
			wantCls = zz4NotFound // the entry has no parent
			break
		}
		i, wantCls = zz4Step(log, i)
	}
	for wantCls == zz4OK {
		if log[i].kind != zz4Ann && !strings.HasPrefix(log[i].ref, gittufNamespacePrefix) {
			want = i
			break
		}
		i, wantCls = zz4Step(log, i)
	}
	zz4Agree(cls, wantCls, tampered, "parent")
	if tampered {
		_, _, err2 := GetNonGittufParentReferenceUpdaterEntryForEntry(store, log[at].entry)
		zz4Agree(zz4Classify(err2), wantCls, tampered, "parent-repeated")
	}
	if cls == zz4OK && wantCls == zz4OK {
		verif.Reach("found")
		verif.Assert(got.GetID().Equal(log[want].id), "parent-entry")
		zz4CheckAnnotations(log, gotAnns, zz4AllAnnotationsNewestFirst(log, want, want), "parent-annotations")
	} else if cls != zz4OK && wantCls != zz4OK {
		verif.Reach("error-agreed")
	}
}

func HarnessC04NonGittufParent()         { zz4NonGittufParentHarness(false) }
func HarnessC04NonGittufParentTampered() { zz4NonGittufParentHarness(true) }

// ---------------------------------------------------------------------------
// range queries

func zz4Relevant(ref, want string) bool {
	if want == "" || ref == want {
		return true
	}
	return strings.HasPrefix(ref, gittufNamespacePrefix) && ref != gittufPolicyStagingRef
}

func zz4RangeHarness(tampered bool) {
	n, legacy, tamper, tpos := zz4ShapeMax(tampered, 3) // range queries keep the 3-entry logs in both tiers
	store, log := zz4Build(n, legacy, tamper, tpos)
	first := verif.Concrete(verif.IntRange("first", 0, n-1))
	last := verif.Concrete(verif.IntRange("last", 0, n-1))
	ref := ""
	if verif.Bool("forref") {
		ref = verif.PickStr(verif.Choice("refidx", len(zz4Refs)), zz4Refs...)
	}
	got, gotMap, err := GetReferenceUpdaterEntriesInRangeForRef(store, zz4ID(first), zz4ID(last), ref)
	cls := zz4Classify(err)

	// reference: walk tip -> last -> first
	wantCls := zz4OK
	i := n - 1
	if log[i].garbage {
		wantCls = zz4Invalid
	}
	for wantCls == zz4OK && i != last {
		i, wantCls = zz4Step(log, i)
	}
	for wantCls == zz4OK && i != first {
		i, wantCls = zz4Step(log, i) // walking below the root yields not-found (first newer than last)
	}
	zz4Agree(cls, wantCls, tampered, "range")
	if tampered {
		_, _, err2 := GetReferenceUpdaterEntriesInRangeForRef(store, zz4ID(first), zz4ID(last), ref)
		zz4Agree(zz4Classify(err2), wantCls, tampered, "range-repeated")
	}
	if cls != zz4OK || wantCls != zz4OK {
		if cls != zz4OK && wantCls != zz4OK {
			verif.Reach("error-agreed")
		}
		return
	}
	verif.Reach("found")
	var want []int
	for k := first; k <= last; k++ {
		if log[k].kind != zz4Ann && zz4Relevant(log[k].ref, ref) {
			want = append(want, k)
		}
	}
	verif.Assert(len(got) == len(want), "range-count")
	if len(got) != len(want) {
		return
	}
	total := 0
	for k, w := range want {
		verif.Assert(got[k].GetID().Equal(log[w].id), "range-entry")
		// annotations on w, in order of occurrence, from anywhere after `first`
		var wantAnns []int
		for a := first + 1; a < n; a++ {
			if log[a].kind == zz4Ann && zz4Refers(&log[a], w) {
				wantAnns = append(wantAnns, a)
				if log[a].t1 == log[a].t2 {
					wantAnns = append(wantAnns, a) // the range reader lists an annotation once per id it names
				}
			}
		}
		gotAnns := gotMap[log[w].id.String()]
		zz4CheckAnnotations(log, gotAnns, wantAnns, "range-annotations")
		total += len(gotAnns)
	}
	n2 := 0
	for _, v := range gotMap {
		n2 += len(v)
	}
	verif.Assert(n2 == total, "range-no-extra-annotations")
}

func HarnessC04Range()         { zz4RangeHarness(false) }
func HarnessC04RangeTampered() { zz4RangeHarness(true) }
