package policy

// C16 harness: a storage failure at any step leaves the log valid and the
// gittuf-managed references consistent; repeating the operation once the
// fault clears succeeds and reaches the state of an uninterrupted run.

import (
	"strconv"
	"strings"

	"github.com/gittuf/gittuf/internal/cache"
	"github.com/gittuf/gittuf/internal/attestations"
	"github.com/gittuf/gittuf/internal/signerverifier/dsse"
	zzmem "github.com/gittuf/gittuf/internal/zzmem"
	verif "github.com/gittuf/gittuf/internal/zzverif"
	"github.com/gittuf/gittuf/pkg/githash"
	"github.com/gittuf/gittuf/pkg/rsl"
)

// zz16Log is the independent reading of the RSL: for every entry, oldest
// first, the reference it names ("" for annotations) and its target; ok=false
// if the commit graph is not a single consecutively numbered chain.
type zz16Entry struct {
	ref    string
	target string
	number uint64
}

func zz16Log(s *zzmem.Store) ([]zz16Entry, bool) {
	var out []zz16Entry
	cur := s.Ref(rsl.Ref)
	for cur != nil {
		c := s.CommitInfo(cur)
		if c == nil {
			return nil, false
		}
		e := zz16Entry{}
		lines := strings.Split(c.Message, "\n")
		if len(lines) < 3 || lines[1] != "" {
			return nil, false
		}
		switch lines[0] {
		case rsl.ReferenceEntryHeader, rsl.PropagationEntryHeader, rsl.AnnotationEntryHeader:
		default:
			return nil, false
		}
		for _, l := range lines[2:] {
			switch {
			case strings.HasPrefix(l, rsl.RefKey+": "):
				e.ref = l[len(rsl.RefKey)+2:]
			case strings.HasPrefix(l, rsl.TargetIDKey+": "):
				e.target = l[len(rsl.TargetIDKey)+2:]
			case strings.HasPrefix(l, rsl.NumberKey+": "):
				n, err := strconv.ParseUint(l[len(rsl.NumberKey)+2:], 10, 64)
				if err != nil {
					return nil, false
				}
				e.number = n
			}
		}
		out = append([]zz16Entry{e}, out...)
		if len(c.Parents) > 1 {
			return nil, false
		}
		if len(c.Parents) == 0 {
			break
		}
		cur = c.Parents[0]
	}
	for i := range out {
		if out[i].number != uint64(i+1) {
			return nil, false
		}
	}
	return out, true
}

func zz16LatestTarget(log []zz16Entry, ref string) string {
	for i := len(log) - 1; i >= 0; i-- {
		if log[i].ref == ref {
			return log[i].target
		}
	}
	return ""
}

var zz16Managed = []string{PolicyRef, PolicyStagingRef, "refs/gittuf/attestations"}

func zz16RefString(h githash.Hash) string {
	if h == nil {
		return ""
	}
	return h.String()
}

// zz16TreeOf returns the tree of the commit a ref points to ("" if unset).
func zz16TreeOf(s *zzmem.Store, ref string) string {
	tip := s.Ref(ref)
	if tip == nil {
		return ""
	}
	return s.TreeDigest(s.CommitInfo(tip).Tree)
}

// zz16Summary describes the state up to commit ids: the log as a sequence of
// reference names, and the tree each managed reference points to.
func zz16Summary(s *zzmem.Store) string {
	log, ok := zz16Log(s)
	if !ok {
		return "<invalid log>"
	}
	var sb strings.Builder
	for _, e := range log {
		sb.WriteString(e.ref + ",")
	}
	for _, r := range zz16Managed {
		sb.WriteString("|" + r + "=" + zz16TreeOf(s, r))
		if zz16RefString(s.Ref(r)) != zz16LatestTarget(log, r) {
			sb.WriteString("(out of step with log)")
		}
	}
	return sb.String()
}

// zz16Setup builds the start state and returns the operation to run.
func zz16Setup(start, op int) (*zzWorld, func() error) {
	w := zzNewWorld()
	spec := zzBasePolicy([]int{0, 1}, nil)
	if start >= 1 {
		// established repository: a policy is applied and a push recorded
		zzMust(w.zzStageAndApply(spec, w.zzBuildState(spec, []int{0}, []int{0}), 0))
		w.zzPush(zzMain, 0, 1, false)
	}
	next := zzBasePolicy([]int{0, 1, 2}, nil)
	next.rootVersion, next.targetsVer = 2, 2
	w.S.Signer = 0
	switch op {
	case 0: // record a reference entry
		commit := w.S.RawCommit(zzFeature, w.zzTree(7), nil, "feature", zzmem.Unsigned)
		return w, func() error { return rsl.NewReferenceEntry(zzFeature, commit).Commit(w.S, true) }
	case 1: // commit a policy state to staging
		state := w.zzBuildState(next, []int{0}, []int{0})
		return w, func() error { return state.Commit(w.S, "stage", true, true) }
	case 2: // apply staged policy
		state := w.zzBuildState(next, []int{0}, []int{0})
		zzMust(state.Commit(w.S, "stage", true, true))
		return w, func() error { return Apply(w.ctx, w.S, true) }
	case 3: // annotation (only meaningful on an established log)
		if start == 0 {
			commit := w.S.RawCommit(zzFeature, w.zzTree(7), nil, "feature", zzmem.Unsigned)
			zzMust(rsl.NewReferenceEntry(zzFeature, commit).Commit(w.S, true))
		}
		tip := w.S.Ref(rsl.Ref)
		return w, func() error { return rsl.NewAnnotationEntry([]githash.Hash{tip}, true, "m").Commit(w.S, true) }
	case 4: // automatic skip of the entries a history rewrite left behind (established log only)
		if start == 0 {
			zzMust(w.zzStageAndApply(spec, w.zzBuildState(spec, []int{0}, []int{0}), 0))
			w.zzPush(zzMain, 0, 1, false)
		}
		w.zzPush(zzMain, 0, 2, false)
		w.zzPushOn(zzMain, 0, 3, nil) // rewrite: an unrelated root commit
		w.S.Signer = 0
		return w, func() error { return rsl.SkipAllInvalidReferenceEntriesForRef(w.S, zzMain, true) }
	case 5: // record an authorization: load the attestations, add one, commit them
		if start == 2 {
			// established repository that already has attestations
			zzMust(zz16Attest(w, "refs/heads/other"))
		}
		return w, func() error { return zz16Attest(w, zzMain) }
	case 6: // reconcile staging after a change landed in the policy ref directly (propagation from a controller)
		if start == 0 {
			zzMust(w.zzStageAndApply(spec, w.zzBuildState(spec, []int{0}, []int{0}), 0))
		}
		policyTip := w.S.Ref(PolicyRef)
		landed := w.S.RawCommit(PolicyRef, w.S.CommitInfo(policyTip).Tree, []githash.Hash{policyTip}, "propagated into policy", zzmem.Unsigned)
		w.S.Signer = 0
		zzMust(rsl.NewPropagationEntry(PolicyRef, landed, "https://example.com/controller", landed).Commit(w.S, true))
		return w, func() error { return ReconcileStaging(w.S, true) }
	case 7: // reconcile staging when staging has unapplied changes AND a change landed in the policy ref directly (diverged)
		if start == 0 {
			zzMust(w.zzStageAndApply(spec, w.zzBuildState(spec, []int{0}, []int{0}), 0))
		}
		policyTip := w.S.Ref(PolicyRef)
		staged := w.zzBuildState(next, []int{0}, []int{0})
		w.S.Signer = 0
		zzMust(staged.Commit(w.S, "stage", true, true))
		landed := w.S.RawCommit(PolicyRef, w.S.CommitInfo(policyTip).Tree, []githash.Hash{policyTip}, "propagated into policy", zzmem.Unsigned)
		zzMust(rsl.NewPropagationEntry(PolicyRef, landed, "https://example.com/controller", landed).Commit(w.S, true))
		return w, func() error { return ReconcileStaging(w.S, true) }
	default: // persistent cache commit
		if start == 0 {
			zzMust(w.zzStageAndApply(spec, w.zzBuildState(spec, []int{0}, []int{0}), 0))
		}
		return w, func() error { return cache.PopulatePersistentCache(w.S) }
	}
}

// zz16Attest records a reference authorization for ref with the real
// attestations API (load, set, commit with an RSL entry).
func zz16Attest(w *zzWorld, ref string) error {
	from := githash.ZeroHash.String()
	to := w.zzTree(9).String()
	statement, err := attestations.NewReferenceAuthorizationForCommit(ref, from, to)
	if err != nil {
		return err
	}
	env, err := dsse.CreateEnvelope(statement)
	if err != nil {
		return err
	}
	zzSignEnv(env, 1)
	cur, err := attestations.LoadCurrentAttestations(w.S)
	if err != nil {
		return err
	}
	if err := cur.SetReferenceAuthorization(w.S, env, ref, from, to); err != nil {
		return err
	}
	w.S.Signer = 0
	return cur.Commit(w.S, "authorize", true, true)
}

func HarnessC16Fault() {
	op := verif.Concrete(verif.Choice("op", 8)) // the operations the property lists (cache commits are not among them: op 8)
	nstart := 2
	if op == 5 {
		nstart = 3 // empty repository, established repository, established repository with attestations
	}
	start := verif.Concrete(verif.Choice("start", nstart))

	// the uninterrupted run
	ref, run := zz16Setup(start, op)
	zzMust(run())
	want := zz16Summary(ref.S)
	calls := ref.S.Calls

	// the run with the k-th storage call failing
	w, run := zz16Setup(start, op)
	beforeRefs := map[string]string{}
	for _, r := range zz16Managed {
		beforeRefs[r] = zz16RefString(w.S.Ref(r))
	}
	k := verif.IntRange("k", 1, verif.Bound("maxcalls", 80, 80))
	w.S.SetFault(k, zzmem.FaultError)
	w.S.LogCalls = true
	err := run()
	w.S.LogCalls = false
	failedCall := ""
	if kk := verif.Concrete(k); kk <= len(w.S.CallLog) {
		failedCall = w.S.CallLog[kk-1]
		verif.Observe("failed-call", strconv.Itoa(kk)+":"+failedCall)
	}
	if failedCall == "GetReference "+cache.Ref {
		// The local persistent cache is optional: a failure to read its
		// reference makes gittuf fall back to scanning the log, so the
		// operation may legitimately succeed.  It must then have reached
		// the uninterrupted state.
		if err == nil {
			verif.Assert(zz16Summary(w.S) == want, "cache-read-fault:operation-still-reaches-the-uninterrupted-state")
			verif.Reach("cache-read-fault-tolerated")
			return
		}
	}
	faulted := w.S.Calls >= 1 && verif.ConcreteBool(k <= w.S.Calls)
	w.S.ClearFault()
	_ = calls

	log, ok := zz16Log(w.S)
	verif.Assert(ok, "log-is-a-valid-chain-after-the-fault")
	if !ok {
		return
	}
	if !faulted {
		verif.Assert(err == nil, "no-fault-no-error")
		verif.Reach("no-fault")
		return
	}
	verif.Reach("faulted")
	verif.Assert(err != nil, "fault-is-reported")
	for _, r := range zz16Managed {
		now := zz16RefString(w.S.Ref(r))
		verif.Assert(now == beforeRefs[r] || now == zz16LatestTarget(log, r), "managed-ref-unchanged-or-in-step-with-log["+r+"]")
	}
	// repeat once the fault has cleared
	err2 := run()
	verif.Assert(err2 == nil, "retry-after-fault-succeeds")
	if err2 == nil {
		verif.Assert(zz16Summary(w.S) == want, "retry-reaches-the-uninterrupted-state")
		verif.Reach("retried")
	}
}

// zz16Verdict: does full verification of main succeed (and with which tip)?
func zz16Verdict(w *zzWorld) string {
	tip, err := NewPolicyVerifier(w.S).VerifyRefFull(w.ctx, zzMain)
	if err != nil {
		return "rejected"
	}
	return "accepted:" + w.S.TreeDigest(w.S.CommitInfo(tip).Tree)
}

// HarnessC16Crash: the process stops dead right after the k-th storage call of
// the operation.  The log must still be a valid chain and the verification
// verdict of the branch must be the one from before or the one from after the
// operation.
func HarnessC16Crash() {
	op := verif.Concrete(verif.Choice("op", 8))
	// established repository only: verdicts need a policy and a recorded branch
	ref, run := zz16Setup(1, op)
	before := zz16Verdict(ref)
	zzMust(run())
	after := zz16Verdict(ref)

	w, run := zz16Setup(1, op)
	k := verif.IntRange("k", 1, verif.Bound("maxcalls", 80, 80))
	w.S.SetFault(k, zzmem.FaultCrash)
	crashed := false
	func() {
		defer func() {
			if r := recover(); r != nil {
				if _, ok := r.(zzmem.Crash); ok {
					crashed = true
					return
				}
				panic(r)
			}
		}()
		run() //nolint:errcheck
	}()
	w.S.ClearFault()
	if !crashed {
		verif.Reach("completed")
		return
	}
	verif.Reach("crashed")
	_, ok := zz16Log(w.S)
	verif.Assert(ok, "log-is-a-valid-chain-after-the-crash")
	got := zz16Verdict(w)
	verif.Assert(got == before || got == after, "verdict-after-crash-is-the-one-from-before-or-after")
}
