package policy

import (
	"strconv"

	verif "github.com/gittuf/gittuf/internal/zzverif"
	"github.com/gittuf/gittuf/pkg/gitinterface"
	"github.com/gittuf/gittuf/pkg/rsl"
)

// HarnessC11Controller: global rules declared by a controller repository.  The
// controller has its own store and log; its root (key3) declares a global
// rule.  The repository under verification declares the controller, carries
// the controller's metadata in its policy tree (recorded, as propagation does,
// by a propagation entry for the policy reference naming the controller's log
// entry), and optionally declares a global rule of its own.  Every matching
// global rule of either root must hold for each verified push.
func HarnessC11Controller() {
	const location = "https://example.com/controller"
	// the controller repository
	wc := zzNewWorld()
	menu := func(name string) []zzGlobalSpec {
		switch verif.Concrete(verif.Choice(name, 4)) {
		case 1:
			return []zzGlobalSpec{{name: name + "-two", pattern: "git:" + zzMain, threshold: 2}}
		case 2:
			return []zzGlobalSpec{{name: name + "-nofp", pattern: "git:" + zzMain, blockFP: true}}
		case 3:
			return []zzGlobalSpec{{name: name + "-other", pattern: "git:refs/heads/other", threshold: 2}}
		}
		return nil
	}
	cglobals := menu("controller.globals")
	cspec := &zzPolicySpec{rootKeys: []int{3}, rootThreshold: 1, globals: cglobals}
	cstate := wc.zzBuildState(cspec, []int{3}, nil)
	zzMust(wc.zzStageAndApply(cspec, cstate, 3))
	upstreamEntry := wc.S.Ref(rsl.Ref)
	gitinterface.ZZCloneSources[location] = wc.S

	// the repository under verification: first an ordinary policy, then one
	// that declares the controller and carries its metadata
	w := zzNewWorld()
	p0 := zzBasePolicy([]int{0, 1}, nil)
	zzMust(w.zzStageAndApply(p0, w.zzBuildState(p0, []int{0}, []int{0}), 0))
	lglobals := menu("local.globals")
	p1 := zzBasePolicy([]int{0, 1}, lglobals)
	p1.rootVersion, p1.targetsVer = 2, 2
	p1.controllers = []zzControllerSpec{{name: "ctrl", location: location, rootKeys: []int{3}}}
	p1.controllerMeta = map[string]*StateMetadata{"ctrl": {RootEnvelope: cstate.Metadata.RootEnvelope}}
	p1.controllerGlobal = cglobals
	state := w.zzBuildState(p1, []int{0}, []int{0})
	w.S.Signer = 0
	zzMust(state.Commit(w.S, "policy with controller metadata", false, true))
	tip := w.S.Ref(PolicyStagingRef)
	w.S.SetRef(PolicyRef, tip)
	zzMust(rsl.NewPropagationEntry(PolicyRef, tip, location, upstreamEntry).Commit(w.S, true))
	w.policies = append(w.policies, p1)

	variant := 0
	n := verif.Concrete(verif.IntRange("slots", 1, verif.Bound("slots", 2, 2)))
	for i := 0; i < n; i++ {
		p := "s" + strconv.Itoa(i)
		variant++
		force := false
		if _, has := w.tips[zzMain]; has {
			force = verif.ConcreteBool(verif.Bool(p + ".force"))
		}
		w.zzPush(zzMain, zzSigner(p+".signer"), variant, force)
	}
	zzCheckRef(w, zzMain, true)
	if len(cglobals) > 0 && len(lglobals) > 0 {
		verif.Reach("both-roots-declare-global-rules")
	}
}
