package rsl

// C17 harness: concurrent writers cannot corrupt the log.  Threads are engine
// coroutines; control changes hands at every storage-interface call, and the
// scheduler's choice at each such point is a symbolic variable, so every
// interleaving at storage-call granularity is explored.

import (
	"strconv"

	verif "github.com/gittuf/gittuf/internal/zzverif"
	"github.com/gittuf/gittuf/pkg/githash"
	"github.com/gittuf/gittuf/pkg/gitinterface"
	"github.com/gittuf/gittuf/pkg/gitstore"
)

func HarnessC17Concurrent() { zz17Run(false) }

// HarnessC17GitInterface: the same scenario with the writers going through the
// real gitinterface.Repository (GetReference, Commit = read tip / commit-tree /
// compare-and-set update-ref, GetCommitMessage, GetCommitParentIDs, ...) over
// the git command model; control changes hands at every git command.
func HarnessC17GitInterface() { zz17Run(true) }

func zz17Run(viaGitInterface bool) {
	newRSLCache()
	w := zz3NewWorld()
	s := w.s
	var st gitstore.Storer = s
	if viaGitInterface {
		st = gitinterface.ZZNewModelRepo(s)
	}
	// start state: empty log or one recorded entry
	if verif.ConcreteBool(verif.Bool("start.nonempty")) {
		zz3Must(NewReferenceEntry("refs/heads/main", w.commits[0]).Commit(st, false))
	}
	startIDs, _, okStart := zz3Walk(s)
	verif.Assert(okStart, "start-log-valid")

	nthreads := verif.Bound("threads", 2, 3)
	errs := make([]error, nthreads)
	for t := 0; t < nthreads; t++ {
		t := t
		// with three writers the first two are not given every operation (the
		// roles are symmetric): writer 0 records a branch entry, writer 1 a
		// branch or staging entry, writer 2 any of the three operations
		nkinds := 3
		if nthreads == 3 && t < 2 {
			nkinds = t + 1
		}
		kind := verif.Concrete(verif.Choice("t"+strconv.Itoa(t)+".op", nkinds))
		verif.Spawn(func() {
			switch kind {
			case 0:
				errs[t] = NewReferenceEntry("refs/heads/main", w.commits[1]).Commit(st, false)
			case 1:
				errs[t] = NewReferenceEntry("refs/gittuf/policy-staging", w.commits[2]).Commit(st, false)
			default:
				if len(startIDs) == 0 {
					errs[t] = NewReferenceEntry("refs/heads/feature", w.commits[1]).Commit(st, false)
				} else {
					errs[t] = NewAnnotationEntry([]githash.Hash{startIDs[0]}, true, "m").Commit(st, false)
				}
			}
		})
	}
	// Partial-order reduction: calls (git commands) that only read
	// content-addressed (immutable) objects, and commit-tree, whose new object
	// is unreachable until a reference names it, commute with every other
	// call; control changes hands only at calls that read or write a
	// reference.  por=0 yields at every call.
	por := verif.Bound("por", 1, 1) == 1
	s.OnCall = func(method string) {
		if por {
			switch {
			case method == "git rev-parse" || method == "git update-ref":
			case len(method) >= 12 && method[:12] == "GetReference", method == "SetReference", method == "DeleteReference",
				method == "Commit", method == "CommitUsingSpecificKey", method == "ResetDueToError":
				// storage-interface calls that read or write a reference
			default:
				return
			}
		}
		verif.Yield(method)
	}
	verif.RunThreads()
	s.OnCall = nil

	succeeded := 0
	for _, e := range errs {
		if e == nil {
			succeeded++
		}
	}
	// independent reading of the commit graph
	cur := s.Ref(Ref)
	var numbers []uint64
	chain := 0
	singleParent := true
	for cur != nil {
		c := s.CommitInfo(cur)
		n, wf := zz3ParseNumber(c.Message)
		verif.Assert(wf, "every-commit-in-the-log-is-a-well-formed-entry")
		numbers = append([]uint64{n}, numbers...)
		chain++
		if len(c.Parents) > 1 {
			singleParent = false
		}
		if len(c.Parents) == 0 {
			break
		}
		cur = c.Parents[0]
	}
	verif.Assert(singleParent, "single-parent-chain")
	verif.Assert(chain == len(startIDs)+succeeded, "each-successful-operation-appears-exactly-once-and-failed-ones-not-at-all")
	consecutive := true
	stale := true // every number is at most what its position calls for: it was computed from an older tip
	for i, n := range numbers {
		if n != uint64(i+1) {
			consecutive = false
		}
		if n < 1 || n > uint64(i+1) {
			stale = false
		}
	}
	// Known finding C17-K1: the tip is read once for numbering and again when
	// the commit is created; a writer whose numbering read is overtaken by
	// another writer's commit still succeeds, so its entry carries a number
	// that does not follow its parent's (the same number as an earlier entry,
	// or a lower one).
	k1 := !consecutive && stale && succeeded >= 2
	verif.Witness("C17-K1", k1)
	verif.Assert(consecutive || k1, "numbers-are-consecutive")
	if consecutive {
		// every reader can walk the log end to end
		_, _, err := GetFirstEntry(st)
		verif.Assert(err == nil, "readers-walk-the-log")
		verif.Reach("valid-log")
	}
	if succeeded == nthreads {
		verif.Reach("all-succeeded")
	}
}
