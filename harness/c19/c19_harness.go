package policy

// C19 harness: mergeability predictions agree with verification of the
// predicted merge.

import (
	verif "github.com/gittuf/gittuf/internal/zzverif"
	"github.com/gittuf/gittuf/pkg/githash"
	"github.com/gittuf/gittuf/pkg/gitstore"
	"github.com/gittuf/gittuf/pkg/rsl"
)

func HarnessC19Mergeable() {
	w := zzNewWorld()
	threshold := verif.Concrete(verif.IntRange("threshold", 1, 3))
	// optional global threshold rule on main, optional file rule on the one
	// file every tree of this world contains
	var globals []zzGlobalSpec
	switch verif.Concrete(verif.Choice("globals", verif.Bound("globalmenu", 2, 3))) {
	case 1:
		globals = []zzGlobalSpec{{name: "g-two", pattern: "git:" + zzMain, threshold: 2}}
	case 2:
		globals = []zzGlobalSpec{{name: "g-three", pattern: "git:" + zzMain, threshold: 3}}
	}
	spec := zzBasePolicy([]int{0, 1, 2}, globals)
	spec.rules[0].threshold = threshold
	if verif.ConcreteBool(verif.Bool("filerule")) {
		spec.rules = append(spec.rules, zzRuleSpec{name: "protect-file", pattern: "file:file", keys: []int{1}, threshold: 1})
	}
	zzMust(w.zzStageAndApply(spec, w.zzBuildState(spec, []int{0}, []int{0}), 0))

	// base state of main: a first push that meets the threshold (pusher key0
	// plus an exact authorization signed by key1 and key2)
	baseTree := w.zzTree(1)
	base := w.zzAuthorizeConcrete([3]string{zzMain, githash.ZeroHash.String(), baseTree.String()}, []int{1, 2})
	_ = base
	w.zzPush(zzMain, 0, 1, false)
	mainTip := w.tips[zzMain]

	// the feature branch: one or two commits on top of main's tip, each with a
	// new tree and a symbolic signer
	featTree := w.zzTree(2)
	featCommit := w.S.RawCommit(zzFeature, featTree, []githash.Hash{mainTip}, "feature work", zzSigner("f1"))
	if verif.Concrete(verif.IntRange("feature.commits", 1, 2)) == 2 {
		featTree = w.zzTree(3)
		featCommit = w.S.RawCommit(zzFeature, featTree, []githash.Hash{featCommit}, "more feature work", zzSigner("f2"))
	}
	w.tips[zzFeature] = featCommit
	w.S.Signer = 1
	zzMust(rsl.NewReferenceEntry(zzFeature, featCommit).Commit(w.S, true))

	// approvals for bringing feature into main (fast-forward: the merged tree
	// is the feature tree), signed by a symbolic subset of the trusted keys
	var approved []bool
	if verif.ConcreteBool(verif.Bool("with.approval")) {
		a := w.zzAuthorize("approval", [3]string{zzMain, mainTip.String(), featTree.String()}, [3]string{zzMain, mainTip.String(), featTree.String()})
		approved = a.signed
	} else {
		approved = []bool{false, false, false, false}
	}

	needSig, perr := NewPolicyVerifier(w.S).VerifyMergeable(w.ctx, zzMain, zzFeature)

	// record the merge (fast-forward) by a candidate and verify
	candidate := zzSigner("candidate")
	w.S.SetRef(zzMain, featCommit)
	w.tips[zzMain] = featCommit
	w.S.Signer = candidate
	zzMust(rsl.NewReferenceEntry(zzMain, featCommit).Commit(w.S, true))
	_, verr := zzVerifyFull(w, zzMain)

	// the candidate is an authorised principal that the approvals did not count yet
	fresh := false
	for k := 0; k < 3; k++ {
		fresh = verif.Or(fresh, verif.And(verif.And(candidate >= 0, candidate == k), !approved[k]))
	}
	napproved := verif.B2I(approved[0]) + verif.B2I(approved[1]) + verif.B2I(approved[2])

	switch {
	case perr != nil:
		verif.Reach("predicted-not-possible")
		// Known finding C19-K1: with a threshold-1 rule and no counted
		// approval the predictor answers "not possible" although a merge
		// recorded by an authorised principal verifies (an existing test
		// pins the predictor's answer).
		k1 := verif.And(threshold == 1, verif.And(napproved == 0, verif.And(fresh, verr == nil)))
		verif.Witness("C19-K1", k1)
		// Known finding C19-K2: a global threshold rule on the branch is only
		// relaxed by one for the recorder's signature when the delegation
		// rule needed that signature too; when the delegation threshold is
		// already met by approvals and the global rule lacks exactly one
		// principal, the predictor answers "not possible" although a merge
		// recorded by a fresh authorised principal verifies.
		// (the recorder only has to be a principal of the policy that is not
		// counted yet: global rules count every principal)
		freshAny := false
		for k := 0; k < 4; k++ {
			freshAny = verif.Or(freshAny, verif.And(verif.And(candidate >= 0, candidate == k), !approved[k]))
		}
		k2 := verif.And(len(globals) > 0, verif.And(freshAny, verr == nil))
		verif.Witness("C19-K2", k2)
		verif.Assert(verif.Or(verr != nil, verif.Or(k1, k2)), "not-possible:merge-verifies-for-no-recorder")
	case needSig:
		verif.Reach("predicted-signature-needed")
		verif.Assert((verr == nil) == fresh, "signature-needed:verifies-iff-recorder-is-a-fresh-authorised-principal")
	default:
		verif.Reach("predicted-no-signature-needed")
		verif.Assert(verr == nil, "no-signature-needed:merge-verifies-whoever-records-it")
	}
}

// zz19Tree: a tree with files a and b.
func zz19Tree(w *zzWorld, a, b string) githash.Hash {
	return w.S.RawTree([]gitstore.TreeEntry{
		{Path: "a", ID: w.S.RawBlob([]byte(a)), Kind: gitstore.KindBlob},
		{Path: "b", ID: w.S.RawBlob([]byte(b)), Kind: gitstore.KindBlob},
	})
}

// HarnessC19MergeCommit: the branch has moved on since the feature branch was
// cut, so the merge is a real merge commit carrying the predicted (three-way)
// tree.  main changes file a, the feature branch changes file b; optionally a
// file rule protects a (trusting key1, who made main's change).
func HarnessC19MergeCommit() {
	w := zzNewWorld()
	threshold := verif.Concrete(verif.IntRange("threshold", 1, 2))
	spec := zzBasePolicy([]int{0, 1, 2}, nil)
	spec.rules[0].threshold = threshold
	fileRule := verif.ConcreteBool(verif.Bool("filerule"))
	if fileRule {
		spec.rules = append(spec.rules, zzRuleSpec{name: "protect-a", pattern: "file:a", keys: []int{1}, threshold: 1})
	}
	zzMust(w.zzStageAndApply(spec, w.zzBuildState(spec, []int{0}, []int{0}), 0))

	push := func(commit githash.Hash) {
		w.S.SetRef(zzMain, commit)
		w.tips[zzMain] = commit
		w.S.Signer = 0
		zzMust(rsl.NewReferenceEntry(zzMain, commit).Commit(w.S, true))
	}
	// base state B0 and main's own next change M1 (file a), both by key1 and fully approved
	t0 := zz19Tree(w, "1", "1")
	zzMust(w.zzAuthorizeConcrete([3]string{zzMain, githash.ZeroHash.String(), t0.String()}, []int{1, 2}))
	b0 := w.S.RawCommit("", t0, nil, "base", 1)
	push(b0)
	t1 := zz19Tree(w, "2", "1")
	zzMust(w.zzAuthorizeConcrete([3]string{zzMain, b0.String(), t1.String()}, []int{1, 2}))
	m1 := w.S.RawCommit("", t1, []githash.Hash{b0}, "main moves on", 1)
	push(m1)

	// the feature branch, cut at B0, changes file b
	tf := zz19Tree(w, "1", "2")
	f1 := w.S.RawCommit(zzFeature, tf, []githash.Hash{b0}, "feature work", zzSigner("f1"))
	w.tips[zzFeature] = f1
	w.S.Signer = 1
	zzMust(rsl.NewReferenceEntry(zzFeature, f1).Commit(w.S, true))

	merged := zz19Tree(w, "2", "2")
	var approved []bool
	if verif.ConcreteBool(verif.Bool("with.approval")) {
		a := w.zzAuthorize("approval", [3]string{zzMain, m1.String(), merged.String()}, [3]string{zzMain, m1.String(), merged.String()})
		approved = a.signed
	} else {
		approved = []bool{false, false, false, false}
	}

	needSig, perr := NewPolicyVerifier(w.S).VerifyMergeable(w.ctx, zzMain, zzFeature)

	// record the merge commit (carrying the predicted tree) by a candidate who
	// signs both the commit and the log entry
	candidate := zzSigner("candidate")
	mm := w.S.RawCommit("", merged, []githash.Hash{m1, f1}, "merge feature", candidate)
	w.S.SetRef(zzMain, mm)
	w.tips[zzMain] = mm
	w.S.Signer = candidate
	zzMust(rsl.NewReferenceEntry(zzMain, mm).Commit(w.S, true))
	_, verr := zzVerifyFull(w, zzMain)
	if verr != nil {
		verif.Observe("verification-error", verr.Error())
	}

	fresh := false
	for k := 0; k < 3; k++ {
		fresh = verif.Or(fresh, verif.And(verif.And(candidate >= 0, candidate == k), !approved[k]))
	}
	napproved := verif.B2I(approved[0]) + verif.B2I(approved[1]) + verif.B2I(approved[2])

	// Known finding C19-K3: with file rules, verification also holds the merge
	// commit itself to the rules of every path in which it differs from one
	// of its parents (here: a, changed on main), whoever made that change;
	// the predictor only looks at the feature branch's commits.
	k3 := verif.And(fileRule, verif.And(perr == nil, verif.And(verr != nil, !verif.And(candidate >= 0, candidate == 1))))
	verif.Witness("C19-K3", k3)
	switch {
	case perr != nil:
		verif.Reach("predicted-not-possible")
		k1 := verif.And(threshold == 1, verif.And(napproved == 0, verif.And(fresh, verr == nil)))
		verif.Witness("C19-K1", k1)
		verif.Assert(verif.Or(verr != nil, k1), "not-possible:merge-verifies-for-no-recorder")
	case needSig:
		verif.Reach("predicted-signature-needed")
		verif.Assert(verif.Or((verr == nil) == fresh, k3), "signature-needed:verifies-iff-recorder-is-a-fresh-authorised-principal")
	default:
		verif.Reach("predicted-no-signature-needed")
		verif.Assert(verif.Or(verr == nil, k3), "no-signature-needed:merge-verifies-whoever-records-it")
	}
}
