package policy

// C19 harness: mergeability predictions agree with verification of the
// predicted merge.

import (
	verif "github.com/gittuf/gittuf/internal/zzverif"
	"github.com/gittuf/gittuf/pkg/githash"
	"github.com/gittuf/gittuf/pkg/rsl"
)

func HarnessC19Mergeable() {
	w := zzNewWorld()
	threshold := verif.Concrete(verif.IntRange("threshold", 1, 3))
	spec := zzBasePolicy([]int{0, 1, 2}, nil)
	spec.rules[0].threshold = threshold
	zzMust(w.zzStageAndApply(spec, w.zzBuildState(spec, []int{0}, []int{0}), 0))

	// base state of main: a first push that meets the threshold (pusher key0
	// plus an exact authorization signed by key1 and key2)
	baseTree := w.zzTree(1)
	base := w.zzAuthorizeConcrete([3]string{zzMain, githash.ZeroHash.String(), baseTree.String()}, []int{1, 2})
	_ = base
	w.zzPush(zzMain, 0, 1, false)
	mainTip := w.tips[zzMain]

	// the feature branch: one commit on top of main's tip with a new tree
	featTree := w.zzTree(2)
	featCommit := w.S.RawCommit(zzFeature, featTree, []githash.Hash{mainTip}, "feature work", -1)
	w.tips[zzFeature] = featCommit
	w.S.Signer = 1
	zzMust(rsl.NewReferenceEntry(zzFeature, featCommit).Commit(w.S, true))

	// approvals for bringing feature into main (fast-forward: the merged tree
	// is the feature tree), signed by a symbolic subset of the trusted keys
	var approved []bool
	if verif.ConcreteBool(verif.Bool("with.approval")) {
		a := w.zzAuthorize("approval", [3]string{zzMain, mainTip.String(), featTree.String()}, [3]string{zzMain, mainTip.String(), featTree.String()})
		approved = a.signed
	} else {
		approved = []bool{false, false, false, false}
	}

	needSig, perr := NewPolicyVerifier(w.S).VerifyMergeable(w.ctx, zzMain, zzFeature)

	// record the merge (fast-forward) by a candidate and verify
	candidate := zzSigner("candidate")
	w.S.SetRef(zzMain, featCommit)
	w.tips[zzMain] = featCommit
	w.S.Signer = candidate
	zzMust(rsl.NewReferenceEntry(zzMain, featCommit).Commit(w.S, true))
	_, verr := zzVerifyFull(w, zzMain)

	// the candidate is an authorised principal that the approvals did not count yet
	fresh := false
	for k := 0; k < 3; k++ {
		fresh = verif.Or(fresh, verif.And(verif.And(candidate >= 0, candidate == k), !approved[k]))
	}
	napproved := verif.B2I(approved[0]) + verif.B2I(approved[1]) + verif.B2I(approved[2])

	switch {
	case perr != nil:
		verif.Reach("predicted-not-possible")
		// Known finding C19-K1: with a threshold-1 rule and no counted
		// approval the predictor answers "not possible" although a merge
		// recorded by an authorised principal verifies (an existing test
		// pins the predictor's answer).
		k1 := verif.And(threshold == 1, verif.And(napproved == 0, verif.And(fresh, verr == nil)))
		verif.Witness("C19-K1", k1)
		verif.Assert(verif.Or(verr != nil, k1), "not-possible:merge-verifies-for-no-recorder")
	case needSig:
		verif.Reach("predicted-signature-needed")
		verif.Assert((verr == nil) == fresh, "signature-needed:verifies-iff-recorder-is-a-fresh-authorised-principal")
	default:
		verif.Reach("predicted-no-signature-needed")
		verif.Assert(verr == nil, "no-signature-needed:merge-verifies-whoever-records-it")
	}
}
