// Package zzverif is the harness API of the gosym engine.
//
// It is injected into the build only through overlays (go/packages overlay
// for symbolic execution, go test -overlay for native replay).  In symbolic
// mode the engine intercepts every function below by name; the bodies here
// are the native replay implementation, which reads the solver's assignment
// from the file named by $VERIF_REPLAY.
package zzverif

import (
	"encoding/json"
	"fmt"
	"os"
	"strings"
)

// RuntimeError is the dynamic type the engine gives to run-time panics.
type RuntimeError string

func (e RuntimeError) Error() string { return "runtime error: " + string(e) }
func (e RuntimeError) RuntimeError() {}

// PlainError, WrapError and WrapErrors are the values the engine builds for
// fmt.Errorf (which cannot be interpreted because fmt is reflection-driven).
type PlainError struct{ Msg string }

func (e *PlainError) Error() string { return e.Msg }

type WrapError struct {
	Msg string
	Err error
}

func (e *WrapError) Error() string { return e.Msg }
func (e *WrapError) Unwrap() error { return e.Err }

type WrapErrors struct {
	Msg  string
	Errs []error
}

func (e *WrapErrors) Error() string   { return e.Msg }
func (e *WrapErrors) Unwrap() []error { return e.Errs }

// ---------------------------------------------------------------------------
// native replay state

type replayFile struct {
	Model map[string]uint64 `json:"model"`
	Tier  string            `json:"tier"`
	Bounds map[string]int   `json:"bounds"`
}

var (
	replay     replayFile
	loaded     bool
	Failed     []string // labels of failed assertions (native)
	ReachedL   []string
	ObservedL  []string
	AssumeFail bool
)

func load() {
	if loaded {
		return
	}
	loaded = true
	replay.Model = map[string]uint64{}
	if p := os.Getenv("VERIF_REPLAY"); p != "" {
		b, err := os.ReadFile(p)
		if err != nil {
			panic(err)
		}
		if err := json.Unmarshal(b, &replay); err != nil {
			panic(err)
		}
	}
}

// ResetNative clears the per-run native state.
func ResetNative() { Failed, ReachedL, ObservedL, AssumeFail = nil, nil, nil, false }

// LoadReplayFile (re)loads the assignment from the given file.
func LoadReplayFile(path string) {
	loaded = true
	replay = replayFile{Model: map[string]uint64{}}
	b, err := os.ReadFile(path)
	if err != nil {
		panic(err)
	}
	if err := json.Unmarshal(b, &replay); err != nil {
		panic(err)
	}
	ResetNative()
}

func sanitize(s string) string {
	var sb strings.Builder
	for _, c := range s {
		switch {
		case c >= 'a' && c <= 'z', c >= 'A' && c <= 'Z', c >= '0' && c <= '9', c == '_', c == '.', c == '!':
			sb.WriteRune(c)
		default:
			sb.WriteByte('_')
		}
	}
	return "in_" + sb.String()
}

func get(name string) uint64 { load(); return replay.Model[sanitize(name)] }

// AssumeFailed is the panic value used when a replayed assignment does not
// satisfy an assumption (the replay is then invalid, not a violation).
type AssumeFailed struct{}

// ---------------------------------------------------------------------------
// API

func Symbolic() bool             { return false }
func Bool(name string) bool      { return get(name) != 0 }
func Uint64(name string) uint64  { return get(name) }
func Uint8(name string) uint8    { return uint8(get(name)) }
func Int(name string) int        { return int(get(name)) }
func IntRange(name string, lo, hi int) int {
	if lo == hi {
		return lo
	}
	v := int(get(name))
	if v < lo || v > hi {
		AssumeFail = true
		panic(AssumeFailed{})
	}
	return v
}
func Choice(name string, n int) int {
	if n <= 1 {
		return 0
	}
	v := int(get(name))
	if v < 0 || v >= n {
		AssumeFail = true
		panic(AssumeFailed{})
	}
	return v
}
func OneOf[T any](name string, alts ...T) T { return alts[Choice(name, len(alts))] }
func Bytes(name string, n int) []byte {
	b := make([]byte, n)
	for i := range b {
		b[i] = byte(get(fmt.Sprintf("%s.%d", name, i)))
	}
	return b
}
func String(name string, n int) string { return string(Bytes(name, n)) }
func Assume(c bool) {
	if !c {
		AssumeFail = true
		panic(AssumeFailed{})
	}
}
func Assert(c bool, label string) {
	if !c {
		Failed = append(Failed, label)
		fmt.Printf("VERIF-ASSERT-FAILED %s\n", label)
	}
}
func Witness(id string, c bool) {
	if c {
		fmt.Printf("VERIF-WITNESS %s\n", id)
	}
}
func Reach(label string)            { ReachedL = append(ReachedL, label) }
func Observe(label string, v any)   { ObservedL = append(ObservedL, fmt.Sprintf("%s=%v", label, v)) }
func Tier() string                  { load(); if replay.Tier == "" { return "quick" }; return replay.Tier }
func Bound(name string, quick, thorough int) int {
	load()
	if v, ok := replay.Bounds[name]; ok {
		return v
	}
	if Tier() == "thorough" {
		return thorough
	}
	return quick
}
func Concrete(x int) int                { return x }
func ConcreteString(s string) string    { return s }
func ConcreteBool(b bool) bool          { return b }
func IsConcrete(v any) bool             { return true }
func Ite(c bool, a, b int) int          { if c { return a }; return b }
func And(a, b bool) bool                { return a && b }
func Or(a, b bool) bool                 { return a || b }
func Not(a bool) bool                   { return !a }
func Implies(a, b bool) bool            { return !a || b }
func B2I(b bool) int                    { if b { return 1 }; return 0 }

// PickStr / PickInt select by index; the engine keeps the selection symbolic
// (a per-byte if-then-else term) when the alternatives have equal length.
func PickStr(idx int, alts ...string) string { return alts[idx] }
func PickInt(idx int, alts ...int) int       { return alts[idx] }

// ---------------------------------------------------------------------------
// threads (C17): control changes hands only at Yield; the scheduler's choices
// are inputs named sched.<n> (symbolic in the engine, replayed natively).

type zzThread struct {
	fn      func()
	resume  chan bool
	started bool
	done    bool
}

var (
	zzThreads []*zzThread
	zzCur     *zzThread
	zzSched   = make(chan *zzThread)
	zzStep    int
	zzPanic   any
)

func Spawn(f func()) { zzThreads = append(zzThreads, &zzThread{fn: f, resume: make(chan bool)}) }

func Yield(point string) {
	if zzCur == nil {
		return
	}
	t := zzCur
	zzSched <- t
	<-t.resume
}

func RunThreads() {
	for {
		var enabled []*zzThread
		for _, t := range zzThreads {
			if !t.done {
				enabled = append(enabled, t)
			}
		}
		if len(enabled) == 0 {
			zzThreads = nil
			zzStep = 0
			return
		}
		idx := 0
		if len(enabled) > 1 {
			zzStep++
			idx = Choice(fmt.Sprintf("sched.%d", zzStep), len(enabled))
		}
		t := enabled[idx]
		zzCur = t
		if !t.started {
			t.started = true
			go func(t *zzThread) {
				defer func() {
					if r := recover(); r != nil {
						zzPanic = r
					}
					t.done = true
					zzSched <- t
				}()
				<-t.resume
				t.fn()
			}(t)
		}
		t.resume <- true
		<-zzSched
		zzCur = nil
		if zzPanic != nil {
			p := zzPanic
			zzPanic = nil
			panic(p)
		}
	}
}
