package policy

// C07 harness: a violation is tolerated only if revoked and repaired as
// recovery requires.

import (
	"strconv"

	zzmem "github.com/gittuf/gittuf/internal/zzmem"
	"github.com/gittuf/gittuf/pkg/githash"
	"github.com/gittuf/gittuf/pkg/rsl"

	verif "github.com/gittuf/gittuf/internal/zzverif"
)

// zz7Accept transcribes the property statement over the abstract history.
func zz7Accept(w *zzWorld, pushes []*zzEvent) bool {
	i := 0
	for i < len(pushes) {
		e := pushes[i]
		if verif.ConcreteBool(zzAuthorized(w, e)) {
			i++
			continue
		}
		// e violates policy: it must be revoked ...
		if !e.skipped {
			return false
		}
		// ... the last valid state is the latest unskipped entry before it ...
		last := -1
		for k := i - 1; k >= 0; k-- {
			if !pushes[k].skipped {
				last = k
				break
			}
		}
		if last < 0 {
			return false
		}
		// ... and a later unskipped entry must restore exactly that tree, every
		// entry between the two being revoked as well
		fix := -1
		for k := i + 1; k < len(pushes); k++ {
			if !pushes[k].skipped && pushes[k].tree.Equal(pushes[last].tree) {
				fix = k
				break
			}
			if !pushes[k].skipped {
				return false // an unrevoked entry inside the invalid range
			}
		}
		if fix < 0 {
			return false
		}
		i = fix + 1
	}
	return true
}

func HarnessC07Recovery() {
	w := zzNewWorld()
	spec := zzBasePolicy([]int{0, 1}, nil)
	zzMust(w.zzStageAndApply(spec, w.zzBuildState(spec, []int{0}, []int{0}), 0))
	// the first entry for main is a valid one by key0 (what happens when the
	// very first entry is the violation is outside the statement)
	w.zzPush(zzMain, 0, 1, false)

	n := verif.Concrete(verif.IntRange("slots", 1, verif.Bound("slots", 2, 3)))
	policyUpdated := false
	for i := 0; i < n; i++ {
		p := "s" + strconv.Itoa(i)
		kind := 0
		if !policyUpdated && verif.Bound("policyupdate", 1, 1) == 1 {
			kind = verif.Concrete(verif.Choice(p+".kind", 2))
		}
		if kind == 1 {
			// key0 is de-authorised for main from here on (key1 stays)
			next := zzBasePolicy([]int{1}, nil)
			next.rootVersion, next.targetsVer = 2, 2
			zzMust(w.zzStageAndApply(next, w.zzBuildState(next, []int{0}, []int{0}), 0))
			policyUpdated = true
			continue
		}
		signer := verif.Choice(p+".signer", 3) // key0, key1, key2 (key2 never trusted for main)
		tree := 1 + verif.Concrete(verif.Choice(p+".tree", 2))
		w.zzPush(zzMain, signer, tree, false)
		// optionally an annotation revoking a subset of the earlier pushes
		if verif.ConcreteBool(verif.Bool(p + ".annotate")) {
			var targets []int
			for k := range w.hist {
				if w.hist[k].kind == "push" && verif.ConcreteBool(verif.Bool(p+".skip"+strconv.Itoa(k))) {
					targets = append(targets, k)
				}
			}
			if len(targets) > 0 {
				// a skip annotation revokes; a plain comment annotation does not
				w.zzAnnotate(0, verif.ConcreteBool(verif.Bool(p+".isskip")), targets...)
			}
		}
	}

	var pushes []*zzEvent
	for k := range w.hist {
		if w.hist[k].kind == "push" && w.hist[k].ref == zzMain {
			pushes = append(pushes, &w.hist[k])
		}
	}
	_, err := zzVerifyFull(w, zzMain)
	want := zz7Accept(w, pushes)
	verif.Assert((err == nil) == want, "verdict-matches-recovery-rules")
	if err == nil {
		verif.Reach("accepted")
	} else {
		verif.Reach("rejected")
	}
	recovered := false
	for _, e := range pushes {
		if e.skipped {
			recovered = true
		}
	}
	if recovered && err == nil {
		verif.Reach("accepted-with-revocation")
	}
}

// HarnessC07Deferred: a fixed recovery skeleton (valid push, violating push
// that is revoked, fix restoring the first tree, one more push) with a policy
// update that de-authorises key0 placed at any of the four gaps, and symbolic
// signers for the fix and the last push: entries for gittuf's own namespaces
// met while searching for the fix must still be processed afterwards.
func HarnessC07Deferred() {
	w := zzNewWorld()
	spec := zzBasePolicy([]int{0, 1}, nil)
	zzMust(w.zzStageAndApply(spec, w.zzBuildState(spec, []int{0}, []int{0}), 0))
	update := func() {
		next := zzBasePolicy([]int{1}, nil)
		next.rootVersion, next.targetsVer = 2, 2
		zzMust(w.zzStageAndApply(next, w.zzBuildState(next, []int{0}, []int{0}), 0))
	}
	at := verif.Concrete(verif.Choice("update.at", 5)) // 4 = no update
	w.zzPush(zzMain, 0, 1, false)
	if at == 0 {
		update()
	}
	w.zzPush(zzMain, 2, 2, false) // violation: key2 is never trusted for main
	bad := len(w.hist) - 1
	if at == 1 {
		update()
	}
	if verif.ConcreteBool(verif.Bool("revoked")) {
		w.zzSkip(1, bad)
	}
	if at == 2 {
		update()
	}
	w.zzPush(zzMain, verif.Choice("fix.signer", 3), 1+verif.Concrete(verif.Choice("fix.tree", 2)), false)
	if at == 3 {
		update()
	}
	w.zzPush(zzMain, verif.Choice("last.signer", 3), 3, false)

	var pushes []*zzEvent
	for k := range w.hist {
		if w.hist[k].kind == "push" && w.hist[k].ref == zzMain {
			pushes = append(pushes, &w.hist[k])
		}
	}
	_, err := zzVerifyFull(w, zzMain)
	want := zz7Accept(w, pushes)
	verif.Assert((err == nil) == want, "verdict-matches-recovery-rules")
	if err == nil {
		verif.Reach("accepted")
	} else {
		verif.Reach("rejected")
	}
}

// HarnessC07DeferredAttestation: like HarnessC07Deferred, but what is met
// while searching for the fix is an attestations entry: the approval that the
// push after the recovery needs.  protect-main has threshold 2; the last push
// (by key0) reaches it only with the authorization signed by key1, which is
// recorded at a symbolic place: before the violation, between the violation
// and its revocation, between the revocation and the fix, after the fix -- or
// not at all.
func HarnessC07DeferredAttestation() {
	w := zzNewWorld()
	spec := zzBasePolicy([]int{0, 1, 2}, nil)
	spec.rules[0].threshold = 2
	zzMust(w.zzStageAndApply(spec, w.zzBuildState(spec, []int{0}, []int{0}), 0))

	record := func(commit githash.Hash, signer int) {
		w.S.SetRef(zzMain, commit)
		w.tips[zzMain] = commit
		w.S.Signer = signer
		zzMust(rsl.NewReferenceEntry(zzMain, commit).Commit(w.S, true))
	}
	// the commits, made up front so that approvals can name them
	t1, t2, t3 := w.zzTree(1), w.zzTree(2), w.zzTree(3)
	c1 := w.S.RawCommit("", t1, nil, "good", zzmem.Unsigned)
	c2 := w.S.RawCommit("", t2, []githash.Hash{c1}, "violation", zzmem.Unsigned)
	fixTree := t1
	if verif.ConcreteBool(verif.Bool("fix.othertree")) {
		fixTree = t3 // not a fix: does not restore the last good tree
	}
	c3 := w.S.RawCommit("", fixTree, []githash.Hash{c2}, "fix", zzmem.Unsigned)
	c4 := w.S.RawCommit("", w.zzTree(4), []githash.Hash{c3}, "after", zzmem.Unsigned)
	approve := func() {
		zzMust(w.zzAuthorizeConcrete([3]string{zzMain, c3.String(), w.zzTree(4).String()}, []int{1}))
	}
	at := verif.Concrete(verif.Choice("approval.at", 5)) // 4 = never

	// first push: key0 plus an authorization by key1
	zzMust(w.zzAuthorizeConcrete([3]string{zzMain, githash.ZeroHash.String(), t1.String()}, []int{1}))
	record(c1, 0)
	if at == 0 {
		approve()
	}
	record(c2, 0) // violation: one principal only (no authorization)
	badEntry := w.S.Ref(rsl.Ref)
	if at == 1 {
		approve()
	}
	revoked := verif.ConcreteBool(verif.Bool("revoked"))
	if revoked {
		w.S.Signer = 1
		zzMust(rsl.NewAnnotationEntry([]githash.Hash{badEntry}, true, "revoke").Commit(w.S, true))
	}
	if at == 2 {
		approve()
	}
	record(c3, zzmem.Unsigned) // the fix needs no authority of its own
	if at == 3 {
		approve()
	}
	record(c4, 0)

	_, err := zzVerifyFull(w, zzMain)
	want := revoked && fixTree.Equal(t1) && at != 4
	if err == nil {
		verif.Reach("accepted")
	} else {
		verif.Reach("rejected")
		verif.Observe("error", err.Error())
	}
	verif.Assert((err == nil) == want, "verdict-matches-recovery-rules-with-the-approval-recorded-anywhere-before-its-push")
}
