package gitinterface

// Repository-level model: the storage primitives of *Repository are answered
// from an in-memory store registered for that *Repository, and the git
// commands that the real tree code still issues (ls-tree -z, mktree, cat-file)
// are answered by a command model over the same store.  The code above the
// primitives -- CreateSubtreeFromUpstreamRepository, TreeBuilder, the path
// parsers, and everything in internal/propagation and pkg/rsl -- is the real
// code.

import (
	"errors"
	"fmt"
	"io"
	"strings"

	zzmem "github.com/gittuf/gittuf/internal/zzmem"
	"github.com/gittuf/gittuf/pkg/gitstore"
)

// ZZStores maps a model repository to its store.
var ZZStores = map[*Repository]*zzmem.Store{}

func ZZNewModelRepo(s *zzmem.Store) *Repository {
	r := &Repository{gitDirPath: "", objectFormat: ObjectFormatSHA1, clock: testClock}
	ZZStores[r] = s
	return r
}

func zzStore(r *Repository) *zzmem.Store {
	s := ZZStores[r]
	if s == nil {
		panic("repomodel: repository without a registered store")
	}
	return s
}

func ZZGetReference(r *Repository, refName string) (Hash, error) { return zzStore(r).GetReference(refName) }
func ZZSetReference(r *Repository, refName string, gitID Hash) error {
	return zzStore(r).SetReference(refName, gitID)
}
func ZZGetCommitTreeID(r *Repository, commitID Hash) (Hash, error) {
	return zzStore(r).GetCommitTreeID(commitID)
}
func ZZGetCommitMessage(r *Repository, commitID Hash) (string, error) {
	return zzStore(r).GetCommitMessage(commitID)
}
func ZZGetCommitParentIDs(r *Repository, commitID Hash) ([]Hash, error) {
	return zzStore(r).GetCommitParentIDs(commitID)
}
func ZZEmptyTree(r *Repository) (Hash, error) { return zzStore(r).EmptyTree() }
func ZZRepoCommit(r *Repository, treeID Hash, targetRef, message string, sign bool) (Hash, error) {
	return zzStore(r).Commit(treeID, targetRef, message, sign)
}
func ZZHasObject(r *Repository, objectID Hash) bool { return zzStore(r).HasObject(objectID) }
func ZZReadBlob(r *Repository, blobID Hash) ([]byte, error) { return zzStore(r).ReadBlob(blobID) }
func ZZWriteBlob(r *Repository, contents []byte) (Hash, error) {
	return zzStore(r).WriteBlob(contents)
}
func ZZIsBare(r *Repository) bool { return true }

// ZZRemotes maps (repository, remote name) to the remote's store.
var ZZRemotes = map[*Repository]map[string]*zzmem.Store{}

func ZZAddModelRemote(r *Repository, name string, remote *zzmem.Store) {
	if ZZRemotes[r] == nil {
		ZZRemotes[r] = map[string]*zzmem.Store{}
	}
	ZZRemotes[r][name] = remote
}

func ZZCanSign(r *Repository) error { return nil }

func ZZGetRemoteURL(r *Repository, remoteName string) (string, error) {
	if ZZRemotes[r][remoteName] == nil {
		return "", errors.New("fatal: No such remote")
	}
	return "model://" + remoteName, nil
}

func ZZKnowsCommit(r *Repository, testCommitID, ancestorCommitID Hash) (bool, error) {
	return zzStore(r).KnowsCommit(testCommitID, ancestorCommitID)
}

func ZZGetCommonAncestor(r *Repository, a, b Hash) (Hash, error) {
	base := zzStore(r).MergeBase(a, b)
	if base == nil {
		return nil, errors.New("no common ancestor")
	}
	return base, nil
}

// zzFetch copies the objects of each "src:dst" (or plain ref) refspec from
// the remote and sets dst; with fastForwardOnly a non fast-forward update of
// an existing dst is refused, as git fetch does without '+'.
func zzFetch(r *Repository, remoteName string, specs []string, fastForwardOnly bool) error {
	remote := ZZRemotes[r][remoteName]
	if remote == nil {
		return errors.New("fatal: No such remote")
	}
	local := zzStore(r)
	for _, spec := range specs {
		src, dst := spec, spec
		if a, b, ok := strings.Cut(spec, ":"); ok {
			src, dst = a, b
		}
		tip := remote.Ref(src)
		if tip == nil {
			return errors.New("fatal: couldn't find remote ref " + src)
		}
		if old := local.Ref(dst); old != nil && fastForwardOnly && !remote.IsAncestor(tip, old) {
			return errors.New("! [rejected] (non-fast-forward)")
		}
		local.CopyCommitsFrom(remote, tip)
		local.SetRef(dst, tip)
	}
	return nil
}

func ZZFetchRefSpec(r *Repository, remoteName string, refSpecs []string, opts ...FetchOption) error {
	return zzFetch(r, remoteName, refSpecs, true)
}

func ZZFetch(r *Repository, remoteName string, refs []string, fastForwardOnly bool, opts ...FetchOption) error {
	return zzFetch(r, remoteName, refs, fastForwardOnly)
}

// ZZExecuteRawRepo is the command model over the registered store.
func ZZExecuteRawRepo(e *executor) (string, error) {
	s := zzStore(e.r)
	args := e.args
	z := false
	for _, a := range args {
		if a == "-z" {
			z = true
		}
	}
	last := args[len(args)-1]
	fail := func(msg string) (string, error) {
		return "", fmt.Errorf("%w when executing `git %s`", errors.New(msg), strings.Join(args, " "))
	}
	term, name := "\n", zzQuoteName
	if z {
		term, name = "\x00", func(n string) string { return n }
	}
	switch args[0] {
	case "rev-parse", "update-ref", "commit-tree", "show", "hash-object", "merge-base":
		return zzRefCommand(e, s)
	case "cat-file":
		id, err := NewHash(last)
		if err != nil {
			return fail("fatal: not a valid object name")
		}
		if s.Call("git cat-file") {
			return fail("fatal: injected storage failure")
		}
		defer s.After()
		switch args[1] {
		case "-e":
			if s.HasObject(id) {
				return "", nil
			}
			return fail("exit status 1")
		case "-t":
			if t := s.ObjectType(id); t != "" {
				return t + "\n", nil
			}
			return fail("fatal: could not get object info")
		}
	case "ls-tree":
		id, err := NewHash(last)
		if err != nil {
			return fail("fatal: not a valid object name")
		}
		if c := s.CommitInfo(id); c != nil {
			id = c.Tree
		}
		recursive := false
		nameOnly := false
		for _, a := range args {
			if a == "-r" {
				recursive = true
			}
			if a == "--name-only" {
				nameOnly = true
			}
		}
		var sb strings.Builder
		var walk func(tree Hash, prefix string) error
		walk = func(tree Hash, prefix string) error {
			ents, ok := s.TreeEntries(tree)
			if !ok {
				return errors.New("fatal: not a tree object")
			}
			for _, en := range ents {
				if en.Kind == gitstore.KindSubtree && recursive {
					if err := walk(en.ID, prefix+en.Path+"/"); err != nil {
						return err
					}
					continue
				}
				if nameOnly {
					sb.WriteString(name(prefix+en.Path) + term)
					continue
				}
				mode, typ := "100644", "blob"
				if en.Kind == gitstore.KindSubtree {
					mode, typ = "040000", "tree"
				}
				sb.WriteString(mode + " " + typ + " " + en.ID.String() + "\t" + name(prefix+en.Path) + term)
			}
			return nil
		}
		if err := walk(id, ""); err != nil {
			return fail(err.Error())
		}
		return sb.String(), nil
	case "mktree":
		// git mktree reads "<mode> SP <type> SP <object> TAB <path>" records,
		// newline-terminated, C-style quoted paths being unquoted; with -z the
		// records are NUL-terminated and paths are verbatim
		var in string
		if e.stdIn != nil {
			b, err := io.ReadAll(e.stdIn)
			if err != nil {
				return fail(err.Error())
			}
			in = string(b)
		}
		var entries []gitstore.TreeEntry
		for _, rec := range strings.Split(in, term) {
			if rec == "" {
				continue
			}
			info, p, found := strings.Cut(rec, "\t")
			fields := strings.Split(info, " ")
			if !found || len(fields) != 3 {
				return fail("fatal: input format error: " + rec)
			}
			id, err := NewHash(fields[2])
			if err != nil {
				return fail("fatal: invalid object id")
			}
			if !z && strings.HasPrefix(p, "\"") {
				u, ok := zzUnquoteName(p)
				if !ok {
					return fail("fatal: invalid quoting")
				}
				p = u
			}
			if strings.Contains(p, "/") {
				return fail("fatal: path " + p + " contains slash")
			}
			kind := gitstore.KindBlob
			if fields[1] == "tree" {
				kind = gitstore.KindSubtree
			}
			entries = append(entries, gitstore.TreeEntry{Path: p, ID: id, Kind: kind})
		}
		return s.RawTree(entries).String() + "\n", nil
	}
	return fail("repomodel: command not modelled")
}

// zzRefCommand models the commands behind GetReference, SetReference,
// DeleteReference, CheckAndSetReference and Commit, following git's
// documented behaviour (git-update-ref(1): with <oldvalue> the update happens
// only if the reference currently has that value, the zero id meaning "must
// not exist"; a new value must name an existing object; deleting a missing
// reference succeeds).  Each command is one atomic storage call.
func zzRefCommand(e *executor, s *zzmem.Store) (string, error) {
	args := e.args
	fail := func(msg string) (string, error) {
		return "", fmt.Errorf("%w when executing `git %s`: %s", errors.New("exit status 128"), strings.Join(args, " "), msg)
	}
	label := "git " + args[0]
	if args[0] == "rev-parse" && len(args) == 2 {
		if _, err := NewHash(strings.TrimSuffix(strings.TrimSuffix(args[1], "^{tree}"), "^@")); err == nil {
			label = "git rev-parse (object)" // reads an immutable object only
		}
	}
	if s.Call(label) {
		return fail("fatal: injected storage failure")
	}
	defer s.After()
	switch args[0] {
	case "rev-parse":
		if len(args) != 2 {
			return fail("repomodel: rev-parse form not modelled")
		}
		if base, ok := strings.CutSuffix(args[1], "^{tree}"); ok {
			id, err := NewHash(base)
			if err != nil || s.CommitInfo(id) == nil {
				return fail("fatal: ambiguous argument '" + args[1] + "': unknown revision or path not in the working tree.")
			}
			return s.CommitInfo(id).Tree.String() + "\n", nil
		}
		if base, ok := strings.CutSuffix(args[1], "^@"); ok {
			id, err := NewHash(base)
			if err != nil || s.CommitInfo(id) == nil {
				return fail("fatal: ambiguous argument '" + args[1] + "': unknown revision or path not in the working tree.")
			}
			out := ""
			for _, p := range s.CommitInfo(id).Parents {
				out += p.String() + "\n"
			}
			return out, nil
		}
		if id := s.Ref(args[1]); id != nil {
			return id.String() + "\n", nil
		}
		if id, err := NewHash(args[1]); err == nil && s.HasObject(id) {
			return id.String() + "\n", nil
		}
		return fail("fatal: ambiguous argument '" + args[1] + "': unknown revision or path not in the working tree.")
	case "update-ref":
		rest := args[1:]
		del := false
		var pos []string
		for _, a := range rest {
			switch a {
			case "--create-reflog":
			case "-d":
				del = true
			default:
				pos = append(pos, a)
			}
		}
		if del {
			if len(pos) != 1 {
				return fail("repomodel: update-ref -d form not modelled")
			}
			s.DropRef(pos[0])
			return "", nil
		}
		if len(pos) != 2 && len(pos) != 3 {
			return fail("usage: git update-ref")
		}
		ref := pos[0]
		newID, err := NewHash(pos[1])
		if err != nil {
			return fail("fatal: " + pos[1] + ": not a valid SHA1")
		}
		cur := s.Ref(ref)
		if len(pos) == 3 {
			oldID, err := NewHash(pos[2])
			if err != nil {
				return fail("fatal: " + pos[2] + ": not a valid SHA1")
			}
			if oldID.IsZero() {
				if cur != nil {
					return fail("fatal: update_ref failed for ref '" + ref + "': cannot lock ref '" + ref + "': reference already exists")
				}
			} else if cur == nil {
				return fail("fatal: update_ref failed for ref '" + ref + "': cannot lock ref '" + ref + "': unable to resolve reference '" + ref + "'")
			} else if !cur.Equal(oldID) {
				return fail("fatal: update_ref failed for ref '" + ref + "': cannot lock ref '" + ref + "': is at " + cur.String() + " but expected " + oldID.String())
			}
		}
		if !s.HasObject(newID) {
			return fail("fatal: update_ref failed for ref '" + ref + "': trying to write ref with nonexistent object " + newID.String())
		}
		s.SetRef(ref, newID)
		return "", nil
	case "merge-base":
		if len(args) == 4 && args[1] == "--is-ancestor" {
			anc, err1 := NewHash(args[2])
			desc, err2 := NewHash(args[3])
			if err1 != nil || err2 != nil || s.CommitInfo(anc) == nil || s.CommitInfo(desc) == nil {
				return fail("fatal: Not a valid commit name")
			}
			if s.IsAncestor(desc, anc) {
				return "", nil
			}
			return "", fmt.Errorf("%w when executing `git %s`: ", errors.New("exit status 1"), strings.Join(args, " "))
		}
		if len(args) == 3 {
			a, err1 := NewHash(args[1])
			b, err2 := NewHash(args[2])
			if err1 != nil || err2 != nil || s.CommitInfo(a) == nil || s.CommitInfo(b) == nil {
				return fail("fatal: Not a valid commit name")
			}
			if base := s.MergeBase(a, b); base != nil {
				return base.String() + "\n", nil
			}
			return "", fmt.Errorf("%w when executing `git %s`: ", errors.New("exit status 1"), strings.Join(args, " "))
		}
		return fail("repomodel: merge-base form not modelled")
	case "show":
		// show -s --format=%B <commit>
		if len(args) != 4 || args[1] != "-s" || args[2] != "--format=%B" {
			return fail("repomodel: show form not modelled")
		}
		id, err := NewHash(args[3])
		if err != nil || s.CommitInfo(id) == nil {
			return fail("fatal: bad object " + args[3])
		}
		return s.CommitInfo(id).Message + "\n", nil
	case "hash-object":
		// hash-object -t tree --stdin with empty input: the empty tree
		if len(args) != 4 || args[1] != "-t" || args[2] != "tree" || args[3] != "--stdin" || e.stdIn != nil {
			return fail("repomodel: hash-object form not modelled")
		}
		return s.RawEmptyTree().String() + "\n", nil
	case "commit-tree":
		var parents []Hash
		message := ""
		sign := false
		var tree Hash
		for i := 1; i < len(args); i++ {
			switch args[i] {
			case "-m":
				i++
				message = args[i]
			case "-p":
				i++
				p, err := NewHash(args[i])
				if err != nil || s.CommitInfo(p) == nil {
					return fail("fatal: " + args[i] + " is not a valid object")
				}
				parents = append(parents, p)
			case "-S":
				sign = true
			default:
				t, err := NewHash(args[i])
				if err != nil || s.ObjectType(t) != "tree" {
					return fail("fatal: " + args[i] + " is not a valid 'tree' object")
				}
				tree = t
			}
		}
		if tree == nil {
			return fail("fatal: must give exactly one tree")
		}
		signer := zzmem.Unsigned
		if sign {
			signer = s.Signer
		}
		// (git stores message+"\n"; every reader here trims it again)
		return s.RawCommit("", tree, parents, message, signer).String() + "\n", nil
	}
	return fail("repomodel: command not modelled")
}

// zzUnquoteName undoes git's C-style quoting.
func zzUnquoteName(q string) (string, bool) {
	if len(q) < 2 || q[0] != '"' || q[len(q)-1] != '"' {
		return "", false
	}
	q = q[1 : len(q)-1]
	var sb strings.Builder
	for i := 0; i < len(q); i++ {
		c := q[i]
		if c != '\\' {
			sb.WriteByte(c)
			continue
		}
		i++
		if i >= len(q) {
			return "", false
		}
		switch q[i] {
		case 'a':
			sb.WriteByte('\a')
		case 'b':
			sb.WriteByte('\b')
		case 't':
			sb.WriteByte('\t')
		case 'n':
			sb.WriteByte('\n')
		case 'v':
			sb.WriteByte('\v')
		case 'f':
			sb.WriteByte('\f')
		case 'r':
			sb.WriteByte('\r')
		case '"':
			sb.WriteByte('"')
		case '\\':
			sb.WriteByte('\\')
		default:
			if i+2 < len(q)+0 && q[i] >= '0' && q[i] <= '3' {
				v := (q[i]-'0')*64 + (q[i+1]-'0')*8 + (q[i+2] - '0')
				sb.WriteByte(v)
				i += 2
			} else {
				return "", false
			}
		}
	}
	return sb.String(), true
}

// ZZPush models `git push <remote> <ref>:<ref>...` without '+': every
// reference is updated on its own, a non-fast-forward update is rejected (the
// others still happen) and the command then fails.
func ZZPush(r *Repository, remoteName string, refs []string) error {
	remote := ZZRemotes[r][remoteName]
	if remote == nil {
		return errors.New("fatal: No such remote")
	}
	local := zzStore(r)
	rejected := false
	for _, ref := range refs {
		tip := local.Ref(ref)
		if tip == nil {
			return errors.New("error: src refspec " + ref + " does not match any")
		}
		if old := remote.Ref(ref); old != nil && !local.IsAncestor(tip, old) {
			rejected = true
			continue
		}
		remote.CopyCommitsFrom(local, tip)
		remote.SetRef(ref, tip)
	}
	if rejected {
		return errors.New("! [rejected] (non-fast-forward): failed to push some refs")
	}
	return nil
}

// ZZFetchObject models `git fetch <remote> <id>`.
func ZZFetchObject(r *Repository, remoteName string, objectID Hash) error {
	remote := ZZRemotes[r][remoteName]
	if remote == nil {
		return errors.New("fatal: No such remote")
	}
	if !remote.HasObject(objectID) {
		return errors.New("fatal: remote error: upload-pack: not our ref " + objectID.String())
	}
	zzStore(r).CopyCommitsFrom(remote, objectID)
	return nil
}

// ZZCloneSources maps a repository location to the store a clone of it shows.
var ZZCloneSources = map[string]*zzmem.Store{}

// ZZCloneAndFetchRepository models cloning: a repository handle over the
// store registered for the location (the clone sees every object and
// reference of the source).
func ZZCloneAndFetchRepository(remoteURL, dir, initialBranch string, refs []string, bare bool) (*Repository, error) {
	s := ZZCloneSources[remoteURL]
	if s == nil {
		return nil, errors.New("fatal: repository '" + remoteURL + "' not found")
	}
	return ZZNewModelRepo(s), nil
}
