package propagation

// C18 harness: propagation copies exactly the upstream subtree and is
// idempotent.

import (
	"sort"
	"strconv"
	"strings"

	tufv01 "github.com/gittuf/gittuf/internal/tuf/v01"
	"github.com/gittuf/gittuf/internal/tuf"
	zzmem "github.com/gittuf/gittuf/internal/zzmem"
	verif "github.com/gittuf/gittuf/internal/zzverif"
	"github.com/gittuf/gittuf/pkg/githash"
	"github.com/gittuf/gittuf/pkg/gitinterface"
	"github.com/gittuf/gittuf/pkg/gitstore"
	"github.com/gittuf/gittuf/pkg/rsl"
)

const (
	zz18UpRef   = "refs/heads/main"
	zz18DownRef = "refs/heads/main"
	zz18UpLoc   = "https://example.com/upstream"
)

func zz18Tree(s *zzmem.Store, files map[string]string) githash.Hash {
	var ents []gitstore.TreeEntry
	var names []string
	for p := range files {
		names = append(names, p)
	}
	sort.Strings(names)
	for _, p := range names {
		ents = append(ents, gitstore.TreeEntry{Path: p, ID: s.RawBlob([]byte(files[p])), Kind: gitstore.KindBlob})
	}
	return s.RawTree(ents)
}

// zz18Files renders path=content pairs of the tree of ref's tip.
func zz18Files(s *zzmem.Store, ref string) string {
	tip := s.Ref(ref)
	if tip == nil {
		return "<no ref>"
	}
	return s.TreeDigest(s.CommitInfo(tip).Tree)
}

func zz18Render(files map[string]string) string {
	var names []string
	for p := range files {
		names = append(names, p)
	}
	sort.Strings(names)
	var sb strings.Builder
	for _, p := range names {
		sb.WriteString(p + "=" + files[p] + ";")
	}
	return sb.String()
}

func zz18Must(err error) {
	if err != nil {
		panic("harness setup failed: " + err.Error())
	}
}

func HarnessC18Propagation() {
	up := zzmem.New(1)
	down := zzmem.New(2)
	upRepo := gitinterface.ZZNewModelRepo(up)
	downRepo := gitinterface.ZZNewModelRepo(down)

	// upstream: a tree with files inside and outside "metadata/"
	upFiles := map[string]string{"top": "u-top", "metadata/x": "u-x", "metadata/sub/y": "u-y"}
	upCommit := up.RawCommit(zz18UpRef, zz18Tree(up, upFiles), nil, "upstream", zzmem.Unsigned)
	upState := verif.Concrete(verif.Choice("upstream.log", 3))
	switch upState {
	case 0: // no entry for the upstream reference
	case 1:
		zz18Must(rsl.NewReferenceEntry(zz18UpRef, upCommit).Commit(up, false))
	default: // an older entry, then a newer one that has been revoked
		zz18Must(rsl.NewReferenceEntry(zz18UpRef, upCommit).Commit(up, false))
		newer := up.RawCommit(zz18UpRef, zz18Tree(up, map[string]string{"top": "revoked"}), []githash.Hash{upCommit}, "bad", zzmem.Unsigned)
		zz18Must(rsl.NewReferenceEntry(zz18UpRef, newer).Commit(up, false))
		zz18Must(rsl.NewAnnotationEntry([]githash.Hash{up.Ref(rsl.Ref)}, true, "revoked").Commit(up, false))
	}
	var upEntryID githash.Hash
	if upState != 0 {
		first, _, err := rsl.GetFirstEntry(up)
		zz18Must(err)
		upEntryID = first.GetID()
	}

	// downstream: files under and beside the downstream path, names that are
	// prefixes of one another, and one oddly named file (symbolic bytes)
	odd := verif.String("oddname", verif.Concrete(verif.IntRange("oddname.len", 1, verif.Bound("namebytes", 1, 2))))
	for i := 0; i < len(odd); i++ {
		verif.Assume(odd[i] != 0 && odd[i] != '/')
	}
	verif.Assume(odd != "keep" && odd != "vendor" && odd != "vendored" && odd != "." && odd != "..")
	downFiles := map[string]string{"keep": "d-keep", "vendor/old": "d-old", "vendored/z": "d-z", odd: "d-odd"}
	down.RawCommit(zz18DownRef, zz18Tree(down, downFiles), nil, "downstream", zzmem.Unsigned)
	zz18Must(rsl.NewReferenceEntry(zz18DownRef, down.Ref(zz18DownRef)).Commit(down, false))

	upPath := verif.OneOf("upstream.path", "", "metadata")
	downPath := verif.OneOf("downstream.path", "vendor", "vendor/")
	directive := tufv01.NewPropagationDirective("d", zz18UpLoc, zz18UpRef, upPath, zz18DownRef, downPath)
	directives := []tuf.PropagationDirective{directive}
	// optionally a second directive for the same upstream: its "metadata"
	// subtree also goes to a nested path that does not exist downstream yet
	two := verif.ConcreteBool(verif.Bool("two.directives"))
	if two {
		directives = append(directives, tufv01.NewPropagationDirective("d2", zz18UpLoc, zz18UpRef, "metadata", zz18DownRef, "third_party/meta"))
	}

	// expected content after propagation
	want := map[string]string{"keep": "d-keep", "vendored/z": "d-z", odd: "d-odd"}
	for p, c := range upFiles {
		if upPath == "" {
			want["vendor/"+p] = c
		} else if strings.HasPrefix(p, upPath+"/") {
			want["vendor/"+strings.TrimPrefix(p, upPath+"/")] = c
		}
	}

	if two {
		for p, c := range upFiles {
			if strings.HasPrefix(p, "metadata/") {
				want["third_party/meta/"+strings.TrimPrefix(p, "metadata/")] = c
			}
		}
	}

	commitsBefore := down.NumCommits()
	err := PropagateChangesFromUpstreamRepository(downRepo, upRepo, directives, false)
	verif.Assert(err == nil, "propagation-ok")
	if err != nil {
		return
	}
	if upState == 0 {
		verif.Reach("nothing-to-propagate")
		verif.Assert(down.NumCommits() == commitsBefore, "no-upstream-entry:nothing-created")
		return
	}
	verif.Reach("propagated")
	got := zz18Files(down, zz18DownRef)
	verif.Assert(got == zz18RenderSym(want), "downstream-tree-is-old-tree-with-path-replaced-by-upstream-subtree")
	latest, err := rsl.GetLatestEntry(down)
	verif.Assert(err == nil, "downstream-log-readable")
	if err == nil {
		pe, isProp := latest.(*rsl.PropagationEntry)
		verif.Assert(isProp, "propagation-entry-recorded")
		if isProp {
			verif.Assert(pe.UpstreamRepository == zz18UpLoc && pe.UpstreamEntryID.Equal(upEntryID) && pe.RefName == zz18DownRef && pe.TargetID.Equal(down.Ref(zz18DownRef)),
				"propagation-entry-names-upstream-location-and-entry")
		}
	}

	// repeating creates nothing
	for rep := 0; rep < verif.Bound("repetitions", 1, 2); rep++ {
		commits := down.NumCommits()
		tip := down.Ref(zz18DownRef)
		err := PropagateChangesFromUpstreamRepository(downRepo, upRepo, directives, false)
		verif.Assert(err == nil, "repeated-propagation-ok")
		verif.Assert(down.NumCommits() == commits && down.Ref(zz18DownRef).Equal(tip), "repetition-creates-nothing["+strconv.Itoa(rep)+"]")
	}
}

// zz18RenderSym renders the expected files like Store.TreeDigest does, but
// tolerates a symbolic file name (sorting is done by the store on names; the
// comparison below is therefore made on the multiset of "path=content;"
// items rather than on one ordered string).
func zz18RenderSym(files map[string]string) string { return zz18Render(files) }
