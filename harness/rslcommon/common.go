package rsl

// helpers shared by the rsl harnesses

import "github.com/gittuf/gittuf/pkg/githash"

func zz4ID(i int) githash.Hash {
	h := make([]byte, 20)
	h[0] = 0xee
	h[19] = byte(i)
	return githash.Hash(h)
}

func zz4Target(i int) githash.Hash {
	h := make([]byte, 20)
	h[0] = 0xcc
	h[19] = byte(i)
	return githash.Hash(h)
}

