package policy

// C01 / C11 harnesses: full verification accepts only histories authorised by
// the policy in force, and global rules only add constraints.

import (
	"strconv"

	"github.com/gittuf/gittuf/internal/attestations"
	"github.com/gittuf/gittuf/internal/signerverifier/dsse"
	"github.com/gittuf/gittuf/pkg/rsl"

	zzmem "github.com/gittuf/gittuf/internal/zzmem"
	verif "github.com/gittuf/gittuf/internal/zzverif"
	"github.com/gittuf/gittuf/pkg/githash"
)

const (
	zzMain    = "refs/heads/main"
	zzFeature = "refs/heads/feature"
	zzRelease = "refs/heads/release"
)

// zzBasePolicy: root key0; rule file signed by key0; protect-main trusts the
// given keys with threshold 1; release is protected through a delegated rule
// file; feature is unprotected.
func zzBasePolicy(mainKeys []int, globals []zzGlobalSpec) *zzPolicySpec {
	return &zzPolicySpec{
		rootKeys: []int{0}, rootThreshold: 1,
		targetsKeys: []int{0}, targetsTh: 1,
		rules: []zzRuleSpec{
			{name: "protect-main", pattern: "git:" + zzMain, keys: mainKeys, threshold: 1},
			{name: "release-team", pattern: "git:" + zzRelease, keys: []int{2}, threshold: 1},
			{name: "release-inner", pattern: "git:" + zzRelease, keys: []int{3}, threshold: 1, file: "release-team"},
		},
		delegated: map[string][]int{"release-team": {2}},
		globals:   globals,
	}
}

// zzSigner: a symbolic signer: any known key, a key no policy mentions, or no
// signature at all.
func zzSigner(name string) int {
	if verif.Bool(name + ".unsigned") {
		return zzmem.Unsigned
	}
	return verif.Choice(name+".key", zzUnknownKey+1)
}

// zzAuthorized: reference definition of "entry e is authorised" for pushes in
// this world (no approvals are recorded, so only threshold-1 rules can be met):
// the ref is unprotected, or some rule reached by the delegation walk for the
// ref (in the policy in force before e) trusts the signer with threshold 1.
func zzAuthorized(w *zzWorld, e *zzEvent) bool {
	if e.policy < 0 {
		return false
	}
	spec := w.policies[e.policy]
	rules := zzRulesFor(spec, e.ref)
	if len(rules) == 0 {
		return true // unprotected by delegation rules
	}
	ok := false
	for _, r := range rules {
		ok = verif.Or(ok, zzSignerSatisfies(r, e.signer))
	}
	return ok
}

// zzGlobalsSatisfied: every matching global threshold rule of the policy in
// force sees at least its threshold of authenticated principals (here: the
// signer, if it is a key the policy defines), and every matching
// block-force-push rule sees a descendant of the previous unskipped state.
func zzGlobalsSatisfied(w *zzWorld, e *zzEvent) bool {
	spec := w.policies[e.policy]
	ok := true
	for _, g := range append(append([]zzGlobalSpec(nil), spec.globals...), spec.controllerGlobal...) {
		if !zzMatch(g.pattern, "git:"+e.ref) {
			continue
		}
		if g.blockFP {
			ok = verif.And(ok, !e.force)
			continue
		}
		authenticated := verif.B2I(verif.And(e.signer >= 0, e.signer < zzUnknownKey))
		ok = verif.And(ok, authenticated >= g.threshold)
	}
	return ok
}

// zzHistoryStep performs free slot number i.
func zzHistoryStep(w *zzWorld, i int, allowPolicy bool, variant *int) {
	p := "s" + strconv.Itoa(i)
	nkinds := 3
	if allowPolicy {
		nkinds = 5 + verif.Bound("propagation", 1, 1) + verif.Bound("annotations", 0, 1)
	}
	switch verif.Concrete(verif.Choice(p+".kind", nkinds)) {
	case 6:
		// an annotation (revoking or merely commenting) on one earlier push
		var pushes []int
		for k := range w.hist {
			if w.hist[k].kind == "push" {
				pushes = append(pushes, k)
			}
		}
		if len(pushes) > 0 {
			w.zzAnnotate(0, verif.ConcreteBool(verif.Bool(p+".isskip")), pushes[verif.Concrete(verif.Choice(p+".target", len(pushes)))])
		}
	case 5:
		// a propagation entry recorded for main by an arbitrary signer
		*variant++
		w.zzPropagation(zzMain, zzSigner(p+".signer"), *variant)
	case 0:
		*variant++
		w.zzPush(zzMain, zzSigner(p+".signer"), *variant, false)
	case 1:
		*variant++
		w.zzPush(zzFeature, zzSigner(p+".signer"), *variant, false)
	case 2:
		*variant++
		w.zzPush(zzRelease, zzSigner(p+".signer"), *variant, false)
	case 3:
		// policy update: main is now trusted to key1 only (key0 de-authorised)
		spec := zzBasePolicy([]int{1}, w.policies[len(w.policies)-1].globals)
		spec.rootVersion, spec.targetsVer = uint64(len(w.policies)+1), uint64(len(w.policies)+1)
		zzMust(w.zzStageAndApply(spec, w.zzBuildState(spec, []int{0}, []int{0}), 0))
	default:
		// policy update: main additionally trusts key2
		spec := zzBasePolicy([]int{0, 1, 2}, w.policies[len(w.policies)-1].globals)
		spec.rootVersion, spec.targetsVer = uint64(len(w.policies)+1), uint64(len(w.policies)+1)
		zzMust(w.zzStageAndApply(spec, w.zzBuildState(spec, []int{0}, []int{0}), 0))
	}
}

func zzVerifyFull(w *zzWorld, ref string) (githash.Hash, error) {
	verifier := NewPolicyVerifier(w.S)
	return verifier.VerifyRefFull(w.ctx, ref)
}

// zzCheckRef compares the verdict for ref with the reference definition.
func zzCheckRef(w *zzWorld, ref string, withGlobals bool) {
	var events []*zzEvent
	for k := range w.hist {
		if (w.hist[k].kind == "push" || w.hist[k].kind == "propagation") && w.hist[k].ref == ref {
			events = append(events, &w.hist[k])
		}
	}
	if len(events) == 0 {
		return
	}
	tip, err := zzVerifyFull(w, ref)
	if err != nil {
		verif.Observe("error["+ref+"]", err.Error())
	}

	allAuthorized := true
	pushesAuthorized := true
	unauthorizedPropagation := false
	annotated := false
	for k := range w.hist {
		if w.hist[k].kind == "skip" {
			annotated = true
		}
	}
	for _, e := range events {
		if e.skipped {
			continue // revoked: the statement is about entries that have not been revoked
		}
		a := zzAuthorized(w, e)
		if withGlobals {
			a = verif.And(a, zzGlobalsSatisfied(w, e))
		}
		allAuthorized = verif.And(allAuthorized, a)
		if e.kind == "propagation" {
			unauthorizedPropagation = verif.Or(unauthorizedPropagation, !a)
		} else {
			pushesAuthorized = verif.And(pushesAuthorized, a)
		}
	}
	// Known finding C01-K2: propagation entries are passed over by
	// verification (VerifyRelativeForRef: "case *rsl.PropagationEntry:
	// continue"), so one recorded for a protected branch by anybody is
	// accepted and its target becomes the verified tip.
	k2 := verif.And(err == nil, verif.And(pushesAuthorized, unauthorizedPropagation))
	verif.Witness("C01-K2", k2)
	label := "[" + ref + "]"
	// (C11-F1, fixed: with any global rule declared the exhaustive verifier used
	// to satisfy the verifier loop on its own, so delegation rules were not
	// enforced)
	if err == nil {
		verif.Reach("accepted")
		verif.Assert(verif.Or(allAuthorized, k2), "accepted-implies-every-entry-authorised"+label)
		if !annotated {
			verif.Assert(tip.Equal(events[len(events)-1].target), "tip-is-latest-target"+label)
		}
	} else {
		verif.Reach("rejected")
		if !annotated {
			// (with revocations in the log, recovery rules decide: C07)
			verif.Assert(!allAuthorized, "authorised-history-verifies"+label)
		}
	}
}

// HarnessC01History: an initial policy, one authorised push to main, then
// free slots (pushes to protected/unprotected refs by arbitrary signers and
// policy updates); no global rules.
func HarnessC01History() {
	w := zzNewWorld()
	spec := zzBasePolicy([]int{0, 1}, nil)
	zzMust(w.zzStageAndApply(spec, w.zzBuildState(spec, []int{0}, []int{0}), 0))
	variant := 0
	n := verif.Concrete(verif.IntRange("slots", 1, verif.Bound("slots", 2, 3)))
	for i := 0; i < n; i++ {
		zzHistoryStep(w, i, true, &variant)
	}
	for _, ref := range []string{zzMain, zzFeature, zzRelease} {
		zzCheckRef(w, ref, false)
	}
}

// HarnessC11Globals: the same world with a set of global rules drawn from a
// menu (matching / not matching main; threshold / block-force-push).
func HarnessC11Globals() {
	w := zzNewWorld()
	var globals []zzGlobalSpec
	switch verif.Concrete(verif.Choice("globals", 4)) {
	case 0:
		globals = []zzGlobalSpec{{name: "g-other", pattern: "git:refs/heads/other", threshold: 1}}
	case 1:
		globals = []zzGlobalSpec{{name: "g-main", pattern: "git:" + zzMain, threshold: 1}}
	case 2:
		globals = []zzGlobalSpec{{name: "g-all", pattern: "git:refs/heads/*", threshold: 2}}
	default:
		globals = []zzGlobalSpec{{name: "g-nofp", pattern: "git:" + zzMain, blockFP: true}}
	}
	spec := zzBasePolicy([]int{0, 1}, globals)
	zzMust(w.zzStageAndApply(spec, w.zzBuildState(spec, []int{0}, []int{0}), 0))
	variant := 0
	n := verif.Concrete(verif.IntRange("slots", 1, verif.Bound("slots", 2, 3)))
	for i := 0; i < n; i++ {
		p := "s" + strconv.Itoa(i)
		variant++
		ref := verif.OneOf(p+".ref", zzMain, zzFeature)
		force := false
		if _, has := w.tips[ref]; has {
			force = verif.ConcreteBool(verif.Bool(p + ".force"))
		}
		w.zzPush(ref, zzSigner(p+".signer"), variant, force)
	}
	for _, ref := range []string{zzMain, zzFeature} {
		zzCheckRef(w, ref, true)
	}
}

// HarnessC11ForcePushSkipped: a block-force-pushes rule must compare a change
// with the reference's previous UNSKIPPED state.  History: push 1; a history
// rewrite (push 2, an unrelated root commit) that is valid when made; a
// policy update declaring the block-force-pushes rule; optionally push 2 is
// revoked; push 3 builds on push 1 or on push 2.
func HarnessC11ForcePushSkipped() {
	w := zzNewWorld()
	spec := zzBasePolicy([]int{0, 1}, nil)
	zzMust(w.zzStageAndApply(spec, w.zzBuildState(spec, []int{0}, []int{0}), 0))
	p1 := w.zzPush(zzMain, 0, 1, false)
	c1 := p1.target
	p2 := w.zzPushOn(zzMain, 0, 2, nil) // rewrite: a root commit
	c2 := p2.target
	p2idx := len(w.hist) - 1
	next := zzBasePolicy([]int{0, 1}, []zzGlobalSpec{{name: "g-nofp", pattern: "git:" + zzMain, blockFP: true}})
	next.rootVersion, next.targetsVer = 2, 2
	zzMust(w.zzStageAndApply(next, w.zzBuildState(next, []int{0}, []int{0}), 0))
	revoked := verif.ConcreteBool(verif.Bool("rewrite.revoked"))
	if revoked {
		w.zzSkip(0, p2idx)
	}
	onRewrite := verif.ConcreteBool(verif.Bool("push3.on.rewrite"))
	if onRewrite {
		w.zzPushOn(zzMain, 0, 3, c2)
	} else {
		w.zzPushOn(zzMain, 0, 3, c1)
	}
	verifier := NewPolicyVerifier(w.S)
	// verify from the entry that put the new policy in force, so that the
	// rewrite itself (made before the rule existed) is not re-judged
	_, err := verifier.VerifyRefFull(w.ctx, zzMain)
	// push 3 must descend from the previous unskipped state of main
	descends := (revoked && !onRewrite) || (!revoked && onRewrite)
	if err == nil {
		verif.Reach("accepted")
	} else {
		verif.Reach("rejected")
	}
	verif.Assert((err == nil) == descends, "block-force-pushes-compares-with-previous-unskipped-state")
}

// HarnessC01Tags: a tag namespace protected by a rule of threshold 1 or 2.
// One or two entries are recorded for the same tag reference, both naming the
// same tag object (signed by a symbolic signer; gittuf refuses tags that
// move) and each optionally accompanied by an authorization for that exact
// change signed by a symbolic subset of keys.
// Full verification must accept only if, for every entry, the entry signer
// plus the authorization signers reach the threshold and the tag object
// itself is signed by a trusted principal.
func HarnessC01Tags() {
	const tagRef = "refs/tags/v1"
	w := zzNewWorld()
	threshold := verif.Concrete(verif.IntRange("threshold", 1, 2))
	spec := zzBasePolicy([]int{0, 1}, nil)
	spec.rules = append(spec.rules, zzRuleSpec{name: "protect-tags", pattern: "git:refs/tags/*", keys: []int{0, 1, 2}, threshold: threshold})
	zzMust(w.zzStageAndApply(spec, w.zzBuildState(spec, []int{0}, []int{0}), 0))
	w.zzPush(zzMain, 0, 1, false)
	commit := w.tips[zzMain]

	nentries := verif.Concrete(verif.IntRange("entries", 1, 2))
	ok := true
	from := githash.ZeroHash
	tagSigner := zzSigner("tagsigner")
	tagObj := w.S.RawTag(commit, tagSigner)
	for i := 0; i < nentries; i++ {
		p := "t" + strconv.Itoa(i)
		// authorization for (tagRef, from, commit) signed by a symbolic subset of key0..key2
		counted := []bool{false, false, false}
		if verif.ConcreteBool(verif.Bool(p + ".authorized")) {
			statement, err := attestations.NewReferenceAuthorizationForTag(tagRef, from.String(), commit.String())
			zzMust(err)
			env, err := dsse.CreateEnvelope(statement)
			zzMust(err)
			var signers []int
			for k := 0; k < verif.Bound("authkeys", 2, 3); k++ {
				if verif.ConcreteBool(verif.Bool(p + ".auth.sig" + strconv.Itoa(k))) {
					signers = append(signers, k)
					counted[k] = true
				}
			}
			zzSignEnv(env, signers...)
			cur, err := attestations.LoadCurrentAttestations(w.S)
			zzMust(err)
			zzMust(cur.SetReferenceAuthorization(w.S, env, tagRef, from.String(), commit.String()))
			w.S.Signer = 0
			zzMust(cur.Commit(w.S, "authorize tag", true, true))
		}
		entrySigner := zzSigner(p + ".entrysigner")
		w.S.SetRef(tagRef, tagObj)
		w.S.Signer = entrySigner
		zzMust(rsl.NewReferenceEntry(tagRef, tagObj).Commit(w.S, true))

		n := 0
		for k := 0; k < 3; k++ {
			n += verif.B2I(verif.Or(counted[k], entrySigner == k))
		}
		tagTrusted := verif.And(tagSigner >= 0, tagSigner <= 2)
		ok = verif.And(ok, verif.And(n >= threshold, tagTrusted))
		from = tagObj
	}
	_, err := zzVerifyFull(w, tagRef)
	if err == nil {
		verif.Reach("accepted")
	} else {
		verif.Reach("rejected")
		verif.Observe("error", err.Error())
	}
	verif.Assert(verif.Implies(err == nil, ok), "accepted-implies-every-tag-entry-meets-the-threshold")
	verif.Assert(verif.Implies(ok, err == nil), "authorised-tag-history-verifies")
}
