package policy

import (
	verif "github.com/gittuf/gittuf/internal/zzverif"
)

func HarnessPolicySmoke() {
	x := verif.IntRange("x", 0, 3)
	verif.Assert(x < 4, "trivial")
	verif.Reach("ok")
}
