package policy

// Scenario builder shared by the policy-level harnesses (C01, C02, C07, C08,
// C11, C12, C16, C19).  It populates an in-memory Storer through gittuf's
// own code: metadata is edited with the real tuf mutators, wrapped with the
// real dsse.CreateEnvelope, committed with the real State.Commit / Apply, and
// every RSL entry is recorded with the real rsl recorders.  Each step also
// appends to an abstract history from which the reference oracles compute
// their answers; oracles never read the store and never call gittuf code.

import (
	"context"
	"encoding/base64"
	"strconv"

	"github.com/gittuf/gittuf/internal/signerverifier/dsse"
	sslibdsse "github.com/gittuf/gittuf/internal/third_party/go-securesystemslib/dsse"
	"github.com/gittuf/gittuf/internal/tuf"
	tufv01 "github.com/gittuf/gittuf/internal/tuf/v01"
	tufv02 "github.com/gittuf/gittuf/internal/tuf/v02"
	zzmem "github.com/gittuf/gittuf/internal/zzmem"
	"github.com/gittuf/gittuf/internal/zzsig"
	verif "github.com/gittuf/gittuf/internal/zzverif"
	"github.com/gittuf/gittuf/pkg/githash"
	"github.com/gittuf/gittuf/pkg/gitstore"
	"github.com/gittuf/gittuf/pkg/rsl"
)

// zzKeyIDs: equal-length key ids so that a signer can stay symbolic.  The
// last two keys are never part of any policy.
var zzKeyIDs = []string{"key0", "key1", "key2", "key3", "keyX", "keyY"}

const zzUnknownKey = 4 // index of a key no policy mentions

type zzRuleSpec struct {
	name      string
	pattern   string
	keys      []int
	threshold int
	file      string // "" or the name of the delegated rule file this rule lives in ("" = primary)
}

type zzGlobalSpec struct {
	name      string
	pattern   string
	threshold int  // for threshold rules
	blockFP   bool // block-force-pushes rule instead
}

type zzPolicySpec struct {
	rootKeys      []int
	rootThreshold int
	targetsKeys   []int
	targetsTh     int
	rules         []zzRuleSpec
	globals       []zzGlobalSpec
	rootVersion   uint64
	targetsVer    uint64
	delegated     map[string][]int // delegated rule file name -> keys that sign it

	// controller repositories declared by the root, the controller metadata
	// carried in the policy tree, and (for the reference definitions only) the
	// global rules those controllers declare
	controllers      []zzControllerSpec
	controllerMeta   map[string]*StateMetadata
	controllerGlobal []zzGlobalSpec
}

type zzControllerSpec struct {
	name     string
	location string
	rootKeys []int
}

// zzEvent is one step of the abstract history.
type zzEvent struct {
	kind     string // "policy", "push", "skip", "propagation"
	ref      string
	signer   int // key index (may be symbolic), zzmem.Unsigned if unsigned
	policy   int // index into w.policies of the policy in force BEFORE this event
	entryID  githash.Hash
	target   githash.Hash
	tree     githash.Hash
	skipped  bool // set when a later annotation revokes the entry
	force    bool // push whose target does not descend from the previous one
	applied  bool // for policy events: whether Apply succeeded
	newSpec  *zzPolicySpec
}

type zzWorld struct {
	ctx      context.Context
	S        *zzmem.Store
	hist     []zzEvent
	policies []*zzPolicySpec // applied policies in order
	blobSeq  int
	tips     map[string]githash.Hash
}

func zzNewWorld() *zzWorld {
	s := zzmem.New(7)
	s.SigFunc = func(payload []byte, signer int) []byte {
		return zzsig.Make(verif.PickStr(signer, zzKeyIDs...), payload)
	}
	return &zzWorld{ctx: context.Background(), S: s, tips: map[string]githash.Hash{}}
}

func zzKey(i int) *tufv01.Key {
	k := &tufv01.Key{}
	k.KeyID = zzKeyIDs[i]
	k.KeyType = "ssh"
	k.Scheme = "ssh"
	k.KeyVal.Public = "public material of " + zzKeyIDs[i]
	return k
}

// zzSignEnv appends modelled signatures by the listed keys.
func zzSignEnv(env *sslibdsse.Envelope, signers ...int) {
	payload, err := env.DecodeB64Payload()
	if err != nil {
		panic(err)
	}
	pae := sslibdsse.PAE(env.PayloadType, payload)
	for _, s := range signers {
		env.Signatures = append(env.Signatures, sslibdsse.Signature{KeyID: zzKeyIDs[s], Sig: base64.StdEncoding.EncodeToString(zzsig.Make(zzKeyIDs[s], pae))})
	}
}

func zzMust(err error) {
	if err != nil {
		panic("harness setup failed: " + err.Error())
	}
}

// zzBuildState turns a policy spec into signed metadata using the real
// mutators.  rootSigners/targetsSigners are the keys that actually sign.
func (w *zzWorld) zzBuildState(spec *zzPolicySpec, rootSigners, targetsSigners []int) *State {
	root := tufv02.NewRootMetadata()
	for _, k := range spec.rootKeys {
		zzMust(root.AddRootPrincipal(zzKey(k)))
	}
	if spec.rootThreshold > 1 {
		zzMust(root.UpdateRootThreshold(spec.rootThreshold))
	}
	for _, k := range spec.targetsKeys {
		zzMust(root.AddPrimaryRuleFilePrincipal(zzKey(k)))
	}
	if spec.targetsTh > 1 {
		zzMust(root.UpdatePrimaryRuleFileThreshold(spec.targetsTh))
	}
	for _, g := range spec.globals {
		if g.blockFP {
			r, err := tufv02.NewGlobalRuleBlockForcePushes(g.name, []string{g.pattern})
			zzMust(err)
			zzMust(root.AddGlobalRule(r))
		} else {
			zzMust(root.AddGlobalRule(tufv02.NewGlobalRuleThreshold(g.name, []string{g.pattern}, g.threshold)))
		}
	}
	for _, c := range spec.controllers {
		var principals []tuf.Principal
		for _, k := range c.rootKeys {
			principals = append(principals, zzKey(k))
		}
		zzMust(root.AddControllerRepository(c.name, c.location, principals))
	}
	if spec.rootVersion != 0 {
		root.Version = spec.rootVersion
	}
	rootEnv, err := dsse.CreateEnvelope(root)
	zzMust(err)
	zzSignEnv(rootEnv, rootSigners...)

	state := &State{Metadata: &StateMetadata{RootEnvelope: rootEnv}, ControllerMetadata: spec.controllerMeta}
	if len(spec.targetsKeys) == 0 {
		return state
	}
	files := map[string]*tufv02.TargetsMetadata{"": tufv02.NewTargetsMetadata()}
	for name := range spec.delegated {
		files[name] = tufv02.NewTargetsMetadata()
	}
	for _, r := range spec.rules {
		md := files[r.file]
		ids := []string{}
		for _, k := range r.keys {
			zzMust(md.AddPrincipal(zzKey(k)))
			ids = append(ids, zzKeyIDs[k])
		}
		zzMust(md.AddRule(r.name, ids, []string{r.pattern}, r.threshold))
	}
	if spec.targetsVer != 0 {
		files[""].Version = spec.targetsVer
	}
	tEnv, err := dsse.CreateEnvelope(files[""])
	zzMust(err)
	zzSignEnv(tEnv, targetsSigners...)
	state.Metadata.TargetsEnvelope = tEnv
	for name, signers := range spec.delegated {
		env, err := dsse.CreateEnvelope(files[name])
		zzMust(err)
		zzSignEnv(env, signers...)
		if state.Metadata.DelegationEnvelopes == nil {
			state.Metadata.DelegationEnvelopes = map[string]*sslibdsse.Envelope{}
		}
		state.Metadata.DelegationEnvelopes[name] = env
	}
	return state
}

// zzStageAndApply commits the state to staging and applies it, both with the
// real gittuf operations.  It returns Apply's error.
func (w *zzWorld) zzStageAndApply(spec *zzPolicySpec, state *State, signer int) error {
	w.S.Signer = signer
	zzMust(state.Commit(w.S, "policy", true, true))
	before := len(w.policies)
	err := Apply(w.ctx, w.S, true)
	ev := zzEvent{kind: "policy", ref: PolicyRef, signer: signer, policy: before - 1, applied: err == nil, newSpec: spec}
	if err == nil {
		w.policies = append(w.policies, spec)
		ev.entryID = w.S.Ref(rsl.Ref)
		ev.target = w.S.Ref(PolicyRef)
	}
	w.hist = append(w.hist, ev)
	return err
}

// zzTree returns a tree with one file whose content is variant.
func (w *zzWorld) zzTree(variant int) githash.Hash {
	b := w.S.RawBlob([]byte("content " + strconv.Itoa(variant)))
	return w.S.RawTree([]gitstore.TreeEntry{{Path: "file", ID: b, Kind: gitstore.KindBlob}})
}

// zzPush creates a commit with the given tree on ref (child of the current
// tip unless force) and records it in the RSL with an entry signed by signer.
func (w *zzWorld) zzPush(ref string, signer int, treeVariant int, force bool) *zzEvent {
	var parents []githash.Hash
	if tip, ok := w.tips[ref]; ok && !force {
		parents = []githash.Hash{tip}
	}
	commit := w.S.RawCommit(ref, w.zzTree(treeVariant), parents, "change "+strconv.Itoa(treeVariant), zzmem.Unsigned)
	w.tips[ref] = commit
	w.S.Signer = signer
	sign := true
	zzMust(rsl.NewReferenceEntry(ref, commit).Commit(w.S, sign))
	w.hist = append(w.hist, zzEvent{kind: "push", ref: ref, signer: signer, policy: len(w.policies) - 1,
		entryID: w.S.Ref(rsl.Ref), target: commit, tree: w.zzTree(treeVariant), force: force})
	return &w.hist[len(w.hist)-1]
}

// zzPushOn is zzPush with an explicit parent commit (nil: a root commit).
func (w *zzWorld) zzPushOn(ref string, signer int, treeVariant int, parent githash.Hash) *zzEvent {
	var parents []githash.Hash
	if parent != nil {
		parents = []githash.Hash{parent}
	}
	commit := w.S.RawCommit(ref, w.zzTree(treeVariant), parents, "change "+strconv.Itoa(treeVariant), zzmem.Unsigned)
	w.tips[ref] = commit
	w.S.Signer = signer
	zzMust(rsl.NewReferenceEntry(ref, commit).Commit(w.S, true))
	w.hist = append(w.hist, zzEvent{kind: "push", ref: ref, signer: signer, policy: len(w.policies) - 1,
		entryID: w.S.Ref(rsl.Ref), target: commit, tree: w.zzTree(treeVariant)})
	return &w.hist[len(w.hist)-1]
}

// zzSkip records an annotation revoking the listed history events.
func (w *zzWorld) zzSkip(signer int, events ...int) { w.zzAnnotate(signer, true, events...) }

// zzAnnotate records an annotation on the listed history events; only a skip
// annotation revokes them.
func (w *zzWorld) zzAnnotate(signer int, skip bool, events ...int) {
	var ids []githash.Hash
	for _, e := range events {
		ids = append(ids, w.hist[e].entryID)
		if skip {
			w.hist[e].skipped = true
		}
	}
	w.S.Signer = signer
	zzMust(rsl.NewAnnotationEntry(ids, skip, "note").Commit(w.S, true))
	w.hist = append(w.hist, zzEvent{kind: "skip", policy: len(w.policies) - 1, entryID: w.S.Ref(rsl.Ref)})
}

// zzPropagation records a propagation entry for ref.
func (w *zzWorld) zzPropagation(ref string, signer int, treeVariant int) *zzEvent {
	commit := w.S.RawCommit(ref, w.zzTree(treeVariant), nil, "propagated", zzmem.Unsigned)
	w.tips[ref] = commit
	w.S.Signer = signer
	zzMust(rsl.NewPropagationEntry(ref, commit, "https://example.com/upstream", commit).Commit(w.S, signer != zzmem.Unsigned))
	w.hist = append(w.hist, zzEvent{kind: "propagation", ref: ref, signer: signer, policy: len(w.policies) - 1, entryID: w.S.Ref(rsl.Ref), target: commit})
	return &w.hist[len(w.hist)-1]
}

// ---------------------------------------------------------------------------
// reference definitions over policy specs

// zzMatch: the harness only uses literal patterns and "git:refs/heads/*".
func zzMatch(pattern, path string) bool {
	if pattern == path {
		return true
	}
	if len(pattern) > 0 && pattern[len(pattern)-1] == '*' {
		p := pattern[:len(pattern)-1]
		return len(path) >= len(p) && path[:len(p)] == p
	}
	return false
}

// zzRulesFor returns the delegation rules of spec matching git:<ref>.
func zzRulesFor(spec *zzPolicySpec, ref string) []zzRuleSpec {
	var out []zzRuleSpec
	for _, r := range spec.rules {
		if zzMatch(r.pattern, "git:"+ref) {
			out = append(out, r)
		}
	}
	return out
}

// zzAuthorizedBy: does the set of signers (one key index, possibly symbolic)
// satisfy at least one of the matching rules (threshold 1 rules only need the
// signer; higher thresholds additionally need approvals, which this world
// does not record, so they are unsatisfiable by a lone signer).
func zzSignerSatisfies(r zzRuleSpec, signer int) bool {
	if r.threshold != 1 {
		return false
	}
	ok := false
	for _, k := range r.keys {
		ok = verif.Or(ok, signer == k)
	}
	return ok
}

var _ tuf.Principal = (*tufv01.Key)(nil)
