package gitinterface

// gitmodel: a model of the git plumbing commands that the parsers of
// pkg/gitinterface consume, answering from in-memory trees and commits
// according to git's documented output formats.  Path names are written as
// git documents for output without -z under the default core.quotePath:
// a name containing '"', '\\', a control byte or a byte >= 0x80 is enclosed
// in double quotes with C-style escapes (octal for bytes without a letter
// escape); with -z names are verbatim and NUL-terminated.  Names may carry
// symbolic bytes: the class of each such byte is decided by the solver.
//
// The model is consulted through an interception of (*executor).executeRaw
// (symbolic execution only; native replay uses the real git binary).

import (
	"errors"
	"fmt"
	"strings"
)

type ZZTreeEntry struct {
	Name string
	ID   Hash
	Tree bool
}

type ZZCommit struct {
	Tree    Hash
	Parents []Hash
}

type ZZGitModel struct {
	Trees   map[string][]ZZTreeEntry // tree id (hex) -> entries
	Commits map[string]*ZZCommit
	Blobs   map[string]bool
}

// ZZGit is the repository the model answers from.
var ZZGit *ZZGitModel

func zzQuoteName(name string) string {
	needs := false
	var sb strings.Builder
	for i := 0; i < len(name); i++ {
		c := name[i]
		switch {
		case c == '"':
			sb.WriteString("\\\"")
			needs = true
		case c == '\\':
			sb.WriteString("\\\\")
			needs = true
		case c == '\a':
			sb.WriteString("\\a")
			needs = true
		case c == '\b':
			sb.WriteString("\\b")
			needs = true
		case c == '\t':
			sb.WriteString("\\t")
			needs = true
		case c == '\n':
			sb.WriteString("\\n")
			needs = true
		case c == '\v':
			sb.WriteString("\\v")
			needs = true
		case c == '\f':
			sb.WriteString("\\f")
			needs = true
		case c == '\r':
			sb.WriteString("\\r")
			needs = true
		case c < 0x20 || c == 0x7f || c >= 0x80:
			sb.WriteString(fmt.Sprintf("\\%03o", c))
			needs = true
		default:
			sb.WriteByte(c)
		}
	}
	if !needs {
		return name
	}
	return "\"" + sb.String() + "\""
}

type zzFlat struct {
	path string
	id   Hash
}

func (m *ZZGitModel) flatten(treeID string, prefix string, out *[]zzFlat) error {
	ents, ok := m.Trees[treeID]
	if !ok {
		return errors.New("fatal: not a tree object")
	}
	// entries are collected in the order they were added; zzSortFlat puts the
	// full paths in git's (bytewise) order afterwards
	for _, e := range ents {
		if e.Tree {
			if err := m.flatten(e.ID.String(), prefix+e.Name+"/", out); err != nil {
				return err
			}
		} else {
			*out = append(*out, zzFlat{prefix + e.Name, e.ID})
		}
	}
	return nil
}

// zzPathLess: bytewise order of two path names (compares byte by byte so that
// names with symbolic bytes split into the orderings that matter).
func zzPathLess(a, b string) bool {
	for i := 0; i < len(a) && i < len(b); i++ {
		if a[i] < b[i] {
			return true
		}
		if a[i] > b[i] {
			return false
		}
	}
	return len(a) < len(b)
}

// zzSortFlat orders a recursive listing as git does: by full path, bytewise
// (which is what sorting every tree's entries with directories compared as
// name+"/" yields for the files of a recursive listing).
func zzSortFlat(flat []zzFlat) {
	for i := 1; i < len(flat); i++ {
		for j := i; j > 0 && zzPathLess(flat[j].path, flat[j-1].path); j-- {
			flat[j], flat[j-1] = flat[j-1], flat[j]
		}
	}
}

func (m *ZZGitModel) treeOf(rev string) (string, error) {
	if c, ok := m.Commits[rev]; ok {
		return c.Tree.String(), nil
	}
	if _, ok := m.Trees[rev]; ok {
		return rev, nil
	}
	return "", errors.New("fatal: not a valid object name " + rev)
}

func zzHasFlag(args []string, f string) bool {
	for _, a := range args {
		if a == f {
			return true
		}
	}
	return false
}

// ZZExecuteRaw answers a git command line with git's untrimmed output.
func ZZExecuteRaw(e *executor) (string, error) {
	out, err := zzRun(ZZGit, e.args)
	if err != nil {
		return "", fmt.Errorf("%w when executing `git %s`", err, strings.Join(e.args, " "))
	}
	return out, nil
}

func zzRun(m *ZZGitModel, args []string) (string, error) {
	z := zzHasFlag(args, "-z")
	term := "\n"
	name := zzQuoteName
	if z {
		term = "\x00"
		name = func(s string) string { return s }
	}
	last := args[len(args)-1]
	switch args[0] {
	case "cat-file":
		if args[1] == "-t" {
			switch {
			case m.Commits[last] != nil:
				return "commit\n", nil
			case m.Trees[last] != nil:
				return "tree\n", nil
			case m.Blobs[last]:
				return "blob\n", nil
			}
			return "", errors.New("fatal: git cat-file: could not get object info")
		}
	case "rev-parse":
		if strings.HasSuffix(last, "^@") {
			c := m.Commits[strings.TrimSuffix(last, "^@")]
			if c == nil {
				return "", errors.New("fatal: bad revision")
			}
			var sb strings.Builder
			for _, p := range c.Parents {
				sb.WriteString(p.String() + "\n")
			}
			return sb.String(), nil
		}
	case "ls-tree":
		tree, err := m.treeOf(last)
		if err != nil {
			return "", err
		}
		var sb strings.Builder
		if zzHasFlag(args, "-r") {
			var flat []zzFlat
			if err := m.flatten(tree, "", &flat); err != nil {
				return "", err
			}
			zzSortFlat(flat)
			for _, f := range flat {
				if zzHasFlag(args, "--name-only") {
					sb.WriteString(name(f.path) + term)
				} else {
					sb.WriteString("100644 blob " + f.id.String() + "\t" + name(f.path) + term)
				}
			}
			return sb.String(), nil
		}
		// git lists a tree's entries sorted by name, directories compared as name+"/"
		listed := append([]ZZTreeEntry(nil), m.Trees[tree]...)
		key := func(e ZZTreeEntry) string {
			if e.Tree {
				return e.Name + "/"
			}
			return e.Name
		}
		for i := 1; i < len(listed); i++ {
			for j := i; j > 0 && zzPathLess(key(listed[j]), key(listed[j-1])); j-- {
				listed[j], listed[j-1] = listed[j-1], listed[j]
			}
		}
		for _, e := range listed {
			mode, typ := "100644", "blob"
			if e.Tree {
				mode, typ = "040000", "tree"
			}
			if zzHasFlag(args, "--name-only") {
				sb.WriteString(name(e.Name) + term)
			} else {
				sb.WriteString(mode + " " + typ + " " + e.ID.String() + "\t" + name(e.Name) + term)
			}
		}
		return sb.String(), nil
	case "diff-tree":
		// diff-tree --no-commit-id --name-only -r [-z] <a> <b>
		a := args[len(args)-2]
		if strings.HasSuffix(a, "~1") {
			c := m.Commits[strings.TrimSuffix(a, "~1")]
			if c == nil || len(c.Parents) == 0 {
				return "", errors.New("fatal: bad revision")
			}
			a = c.Parents[0].String()
		}
		ta, err := m.treeOf(a)
		if err != nil {
			return "", err
		}
		tb, err := m.treeOf(last)
		if err != nil {
			return "", err
		}
		var fa, fb []zzFlat
		if err := m.flatten(ta, "", &fa); err != nil {
			return "", err
		}
		if err := m.flatten(tb, "", &fb); err != nil {
			return "", err
		}
		// the harnesses only diff against the empty tree or an identical
		// tree, so the comparison never has to match symbolic names
		zzSortFlat(fa)
		zzSortFlat(fb)
		var paths []string
		switch {
		case len(fa) == 0:
			for _, f := range fb {
				paths = append(paths, f.path)
			}
		case len(fb) == 0:
			for _, f := range fa {
				paths = append(paths, f.path)
			}
		case ta == tb:
		default:
			return "", errors.New("gitmodel: diff-tree between two non-empty different trees is not modelled")
		}
		var sb strings.Builder
		for _, p := range paths {
			sb.WriteString(name(p) + term)
		}
		return sb.String(), nil
	}
	return "", errors.New("gitmodel: command not modelled: git " + strings.Join(args, " "))
}
