package gitinterface

// C10 harness (parsers): file rules see every changed path verbatim; odd path
// names are never quoted, truncated or skipped when trees are read back.

import (
	"bytes"
	"os"
	"os/exec"
	"strconv"
	"strings"

	verif "github.com/gittuf/gittuf/internal/zzverif"
)

func zz10ID(kind byte, i int) Hash {
	h := make([]byte, 20)
	h[0] = kind
	h[19] = byte(i + 1)
	return Hash(h)
}

// zz10Name: a path component of 1..3 bytes, any byte except NUL and '/'.
func zz10Name(name string) string {
	n := verif.Concrete(verif.IntRange(name+".len", 1, verif.Bound("namebytes", 2, 3)))
	b := verif.Bytes(name, n)
	for _, c := range b {
		verif.Assume(c != 0 && c != '/')
	}
	return string(b)
}

// zz10SameSet: both lists have the same length and every wanted name occurs
// among the names returned (names are pairwise different), as one term.
func zz10SameSet(got, want []string) bool {
	if len(got) != len(want) {
		return false
	}
	all := true
	for _, w := range want {
		found := false
		for _, g := range got {
			found = verif.Or(found, g == w)
		}
		all = verif.And(all, found)
	}
	return all
}

func HarnessC10Parsers() {
	// one tree with a plain file, one or two oddly named files, and a
	// subdirectory holding another oddly named file
	nodd := verif.Concrete(verif.IntRange("nodd", 1, verif.Bound("oddnames", 1, 2)))
	var names []string
	for i := 0; i < nodd; i++ {
		names = append(names, zz10Name("name"+strconv.Itoa(i)))
	}
	if nodd == 2 {
		verif.Assume(names[0] != names[1])
	}
	for _, n := range names {
		verif.Assume(n != "plain" && n != "dir" && n != "." && n != "..")
	}
	m := &ZZGitModel{Trees: map[string][]ZZTreeEntry{}, Commits: map[string]*ZZCommit{}, Blobs: map[string]bool{}}
	sub := zz10ID('t', 1)
	root := zz10ID('t', 2)
	m.Trees[sub.String()] = []ZZTreeEntry{{Name: names[0], ID: zz10ID('b', 9)}}
	ents := []ZZTreeEntry{{Name: "plain", ID: zz10ID('b', 0)}, {Name: "dir", ID: sub, Tree: true}}
	want := []string{"plain", "dir/" + names[0]}
	for i, n := range names {
		ents = append(ents, ZZTreeEntry{Name: n, ID: zz10ID('b', i+1)})
		want = append(want, n)
	}
	m.Trees[root.String()] = ents
	emptyTree := zz10ID('t', 3)
	m.Trees[emptyTree.String()] = nil
	parent := zz10ID('c', 1)
	commit := zz10ID('c', 2)
	m.Commits[parent.String()] = &ZZCommit{Tree: emptyTree}
	m.Commits[commit.String()] = &ZZCommit{Tree: root, Parents: []Hash{parent}}
	rootCommit := zz10ID('c', 3)
	m.Commits[rootCommit.String()] = &ZZCommit{Tree: root}
	ZZGit = m
	repo := &Repository{}
	if !verif.Symbolic() {
		// native replay: the same objects in a real repository, read back by
		// the real git binary
		var cleanup func()
		repo, root, commit, rootCommit, cleanup = zz10NativeRepo(names)
		defer cleanup()
	}

	check := func(got []string, label string) { verif.Assert(zz10SameSet(got, want), label) }

	// every file of the tree, verbatim
	files, err := repo.GetAllFilesInTree(root)
	verif.Assert(err == nil, "GetAllFilesInTree-ok")
	if err == nil {
		var got []string
		for p := range files {
			got = append(got, p)
		}
		check(got, "GetAllFilesInTree-returns-the-names-written")
	}
	// immediate entries, verbatim
	entries, err := repo.GetEntriesInTree(root)
	verif.Assert(err == nil, "GetEntriesInTree-ok")
	if err == nil {
		var got, wantTop []string
		for _, e := range entries {
			got = append(got, e.Path)
		}
		wantTop = append(wantTop, "plain", "dir")
		wantTop = append(wantTop, names...)
		verif.Assert(zz10SameSet(got, wantTop), "GetEntriesInTree-returns-the-names-written")
	}
	// paths changed by a commit with one parent and by a root commit
	changed, err := repo.GetFilePathsChangedByCommit(commit)
	verif.Assert(err == nil, "GetFilePathsChangedByCommit-ok")
	if err == nil {
		check(append([]string(nil), changed...), "GetFilePathsChangedByCommit-returns-the-names-written")
	}
	changedRoot, err := repo.GetFilePathsChangedByCommit(rootCommit)
	verif.Assert(err == nil, "GetFilePathsChangedByCommit-root-ok")
	if err == nil {
		check(append([]string(nil), changedRoot...), "GetFilePathsChangedByCommit-root-returns-the-names-written")
	}
	verif.Reach("parsed")
}

// zz10NativeRepo builds, with the git binary, a repository holding the tree
// and the commits of the harness (native replay only).
func zz10NativeRepo(names []string) (*Repository, Hash, Hash, Hash, func()) {
	dir, err := os.MkdirTemp("", "zz10-")
	if err != nil {
		panic(err)
	}
	run := func(stdin []byte, args ...string) string {
		cmd := exec.Command("git", append([]string{"-C", dir}, args...)...)
		cmd.Env = append(os.Environ(), "GIT_AUTHOR_NAME=a", "GIT_AUTHOR_EMAIL=a@example.com", "GIT_COMMITTER_NAME=a", "GIT_COMMITTER_EMAIL=a@example.com")
		cmd.Stdin = bytes.NewReader(stdin)
		out, err := cmd.Output()
		if err != nil {
			panic("git " + strings.Join(args, " ") + ": " + err.Error())
		}
		return strings.TrimSpace(string(out))
	}
	run(nil, "init", "-q", "--object-format", "sha1")
	blob := run([]byte("content"), "hash-object", "-w", "--stdin")
	sub := run([]byte("100644 blob "+blob+"\t"+names[0]+"\x00"), "mktree", "-z")
	var in bytes.Buffer
	in.WriteString("100644 blob " + blob + "\tplain\x00")
	in.WriteString("040000 tree " + sub + "\tdir\x00")
	for _, n := range names {
		in.WriteString("100644 blob " + blob + "\t" + n + "\x00")
	}
	root := run(in.Bytes(), "mktree", "-z")
	empty := run(nil, "mktree")
	parent := run(nil, "commit-tree", "-m", "parent", empty)
	commit := run(nil, "commit-tree", "-m", "commit", "-p", parent, root)
	rootCommit := run(nil, "commit-tree", "-m", "root", root)
	repo, err := LoadRepository(dir)
	if err != nil {
		panic(err)
	}
	h := func(s string) Hash {
		x, err := NewHash(s)
		if err != nil {
			panic(err)
		}
		return x
	}
	return repo, h(root), h(commit), h(rootCommit), func() { os.RemoveAll(dir) }
}
