package policy

// C10 (second half): whenever the policy in force has file rules, every path
// changed by every commit newly introduced to a reference is checked against
// them under its exact name, and an unauthorised change of a protected path
// makes verification fail.  The repository tree uses odd path names; commit
// signers are symbolic.

import (
	zzmem "github.com/gittuf/gittuf/internal/zzmem"
	verif "github.com/gittuf/gittuf/internal/zzverif"
	"github.com/gittuf/gittuf/pkg/githash"
	"github.com/gittuf/gittuf/pkg/gitstore"
	"github.com/gittuf/gittuf/pkg/rsl"
)

type zz10File struct {
	path    string
	content string
}

func (w *zzWorld) zz10Tree(files []zz10File) githash.Hash {
	var ents []gitstore.TreeEntry
	for _, f := range files {
		ents = append(ents, gitstore.TreeEntry{Path: f.path, ID: w.S.RawBlob([]byte(f.content)), Kind: gitstore.KindBlob})
	}
	return w.S.RawTree(ents)
}

// zz10Change applies one change (0 modify, 1 delete, 2 add) of path to files.
func zz10Change(files []zz10File, kind int, path, content string) []zz10File {
	var out []zz10File
	found := false
	for _, f := range files {
		if f.path == path {
			found = true
			if kind == 1 {
				continue
			}
			out = append(out, zz10File{path, content})
			continue
		}
		out = append(out, f)
	}
	if !found && kind != 1 {
		out = append(out, zz10File{path, content})
	}
	return out
}

type zz10Commit struct {
	signer  int
	changed []string // paths this commit adds, modifies or deletes (harness bookkeeping, independent of the store's diff)
}

// zz10Policy: main is writable by key0; the file pattern is protected by
// key1 (and, when the rule delegates, by key2 through the delegated file).
func zz10Policy(filePattern string, delegated bool, withFileRule bool, version uint64) *zzPolicySpec {
	spec := &zzPolicySpec{
		rootKeys: []int{0}, rootThreshold: 1,
		targetsKeys: []int{0}, targetsTh: 1,
		rules: []zzRuleSpec{
			{name: "protect-main", pattern: "git:" + zzMain, keys: []int{0}, threshold: 1},
		},
		rootVersion: version, targetsVer: version,
	}
	if withFileRule {
		spec.rules = append(spec.rules, zzRuleSpec{name: "files-team", pattern: filePattern, keys: []int{1}, threshold: 1})
		if delegated {
			spec.rules = append(spec.rules, zzRuleSpec{name: "files-inner", pattern: filePattern, keys: []int{2}, threshold: 1, file: "files-team"})
			spec.delegated = map[string][]int{"files-team": {1}}
		}
	}
	return spec
}

func HarnessC10FileRules() {
	w := zzNewWorld()
	// The single-commit shape is crossed with the whole alphabet of odd names;
	// the multi-commit shapes use two of them (quick) or five (thorough).
	shape := verif.Concrete(verif.Choice("shape", 4))
	names := []string{"se cret", "\"quoted\"", "tab\tname", "back\\slash", "ünï", "st*r", "-dash", " lead", "trail ", "a\x01b"}
	if shape != 0 {
		names = names[:verif.Bound("names", 2, 5)]
	}
	// an odd component name, used at the top level and below dir/
	odd := names[verif.Concrete(verif.Choice("odd", len(names)))]
	// protected pattern: everything below dir/, one plain file, or the odd top-level name verbatim
	var pattern string
	switch verif.Concrete(verif.Choice("pattern", 3)) {
	case 0:
		pattern = "file:dir/*"
	case 1:
		pattern = "file:plain"
	default:
		// literal pattern for the odd name (names with glob metacharacters or a backslash are only used below dir/)
		if odd == "st*r" || odd == "back\\slash" {
			pattern = "file:dir/*"
		} else {
			pattern = "file:" + odd
		}
	}
	// where the file rule lives: primary rule file, additionally delegated, or added by a later policy
	mode := verif.Concrete(verif.Choice("rule.mode", 3))
	delegated := mode == 1
	ruleLater := mode == 2

	spec := zz10Policy(pattern, delegated, !ruleLater, 1)
	zzMust(w.zzStageAndApply(spec, w.zzBuildState(spec, []int{0}, []int{0}), 0))

	base := []zz10File{{"plain", "0"}, {"dir/x", "0"}, {odd, "0"}, {"dir/" + odd, "0"}, {"other", "0"}}
	// first push: a root commit by key1, who is trusted for every protected path
	c0 := w.S.RawCommit(zzMain, w.zz10Tree(base), nil, "base", 1)
	w.S.Signer = 0
	zzMust(rsl.NewReferenceEntry(zzMain, c0).Commit(w.S, true))
	if ruleLater {
		spec = zz10Policy(pattern, delegated, true, 2)
		zzMust(w.zzStageAndApply(spec, w.zzBuildState(spec, []int{0}, []int{0}), 0))
	}

	pickPath := func(name string) string {
		return verif.OneOf(name, "plain", odd, "dir/"+odd, "other", "dir/new")
	}
	pickChange := func(p string, files []zz10File, allowDelete bool) ([]zz10File, string) {
		path := pickPath(p + ".path")
		kind := 0 // 0 write (modify or add), 1 delete
		if allowDelete {
			kind = verif.Concrete(verif.Choice(p+".kind", 2))
		}
		exists := false
		for _, f := range files {
			if f.path == path {
				exists = true
			}
		}
		if kind == 1 && !exists {
			kind = 0
		}
		return zz10Change(files, kind, path, p), path
	}

	var commits []zz10Commit
	var tip githash.Hash
	switch shape {
	case 0: // one commit
		f1, p1 := pickChange("c1", base, true)
		s1 := zzSigner("c1.signer")
		tip = w.S.RawCommit("", w.zz10Tree(f1), []githash.Hash{c0}, "c1", s1)
		commits = []zz10Commit{{s1, []string{p1}}}
	case 1: // two commits in a line
		f1, p1 := pickChange("c1", base, false)
		s1 := zzSigner("c1.signer")
		a := w.S.RawCommit("", w.zz10Tree(f1), []githash.Hash{c0}, "c1", s1)
		f2, p2 := pickChange("c2", f1, true)
		s2 := zzSigner("c2.signer")
		tip = w.S.RawCommit("", w.zz10Tree(f2), []githash.Hash{a}, "c2", s2)
		commits = []zz10Commit{{s1, []string{p1}}, {s2, []string{p2}}}
	case 2: // side branch and a merge that may carry a change of its own
		fa, pa := pickChange("a", base, false)
		sa := zzSigner("a.signer")
		a := w.S.RawCommit("", w.zz10Tree(fa), []githash.Hash{c0}, "a", sa)
		// the side commit writes one fixed unprotected-or-protected path different from a's
		pb := verif.OneOf("b.path", "dir/side", "side")
		fb := zz10Change(base, 0, pb, "b")
		sb := zzSigner("b.signer")
		b := w.S.RawCommit("", w.zz10Tree(fb), []githash.Hash{c0}, "b", sb)
		fm := zz10Change(fa, 0, pb, "b") // clean merge of both sides
		var own []string
		if verif.ConcreteBool(verif.Bool("m.evil")) {
			// content that is in neither parent
			pm := verif.OneOf("m.path", "dir/"+odd, odd, "plain", "dir/evil")
			fm = zz10Change(fm, 0, pm, "evil")
			own = []string{pm}
		}
		sm := zzSigner("m.signer")
		tip = w.S.RawCommit("", w.zz10Tree(fm), []githash.Hash{a, b}, "m", sm)
		commits = []zz10Commit{{sa, []string{pa}}, {sb, []string{pb}}, {sm, own}}
	default: // history rewritten: a new root commit; every file in its tree is added by it
		rp := pickPath("r.path")
		files := zz10Change([]zz10File{{"other", "r"}}, 0, rp, "r")
		sr := zzSigner("r.signer")
		tip = w.S.RawCommit("", w.zz10Tree(files), nil, "r", sr)
		commits = []zz10Commit{{sr, []string{rp, "other"}}}
	}
	w.S.SetRef(zzMain, tip)
	w.S.Signer = 0
	zzMust(rsl.NewReferenceEntry(zzMain, tip).Commit(w.S, true))

	_, err := NewPolicyVerifier(w.S).VerifyRefFull(w.ctx, zzMain)

	// reference verdict: some new commit changes a protected path and is not
	// signed by a principal trusted for it (no approvals are recorded)
	bad := false
	touchesProtected := false
	for _, c := range commits {
		trusted := c.signer == 1
		if delegated {
			trusted = verif.Or(trusted, c.signer == 2)
		}
		for _, p := range c.changed {
			if zzMatch(pattern, "file:"+p) {
				touchesProtected = true
				bad = verif.Or(bad, !trusted)
			}
		}
	}
	if touchesProtected {
		verif.Reach("protected-path-changed")
	}
	if err == nil {
		verif.Reach("accepted")
	} else {
		verif.Reach("rejected")
		verif.Observe("error", err.Error())
	}
	verif.Assert(verif.Implies(bad, err != nil), "unauthorised-change-of-a-protected-path-fails-verification")
	_ = zzmem.Unsigned
}
