// Package zzmem is an in-memory gitstore.Storer used by the gosym harnesses.
//
// It is a stub constrained by the documented contract of gitstore.Storer
// (the doc comments of that interface) and by the behaviour of
// gitinterface.Repository where the comments leave a choice (ordering of
// GetCommitsBetweenRange, merge-commit handling of
// GetFilePathsChangedByCommit).  Object ids are deterministic counters, except
// trees and blobs which are content-addressed (identical content, identical
// id) because gittuf compares tree ids for equality.
//
// The package is compiled natively for replay and interpreted symbolically
// by the engine; it uses only constructs both support.
package zzmem

import (
	"errors"
	"sort"
	"strconv"
	"strings"

	"github.com/gittuf/gittuf/pkg/githash"
	"github.com/gittuf/gittuf/pkg/gitstore"
)

var (
	ErrNoObject   = errors.New("zzmem: object not found")
	ErrNotCommit  = errors.New("zzmem: object is not a commit")
	ErrInjected   = errors.New("zzmem: injected storage fault")
	ErrCASFailed  = errors.New("zzmem: reference changed concurrently (compare-and-set failed)")
	ErrMergeConflict = errors.New("zzmem: merge conflict")
)

// Unsigned marks a commit without a signature.
const Unsigned = -1

type Commit struct {
	ID      githash.Hash
	Tree    githash.Hash
	Parents []githash.Hash
	Message string
	Signer  int // index of the signing key in the harness's key table, Unsigned if none (may be symbolic)
}

type Tag struct {
	ID     githash.Hash
	Target githash.Hash
	Signer int
}

type treeEnt struct {
	name string
	id   githash.Hash
	kind gitstore.EntryKind
}

type tree struct {
	id   githash.Hash
	ents []treeEnt // sorted by name
}

// FaultMode selects what happens at the chosen call.
type FaultMode int

const (
	NoFault FaultMode = iota
	FaultError        // the k-th call returns ErrInjected without effect
	FaultCrash        // the operation is abandoned right after the k-th call (panic(Crash{}))
)

// Crash is the panic value of FaultCrash.
type Crash struct{}

type Store struct {
	salt     byte
	epoch    int
	next     int
	refs     map[string]githash.Hash
	refOrder []string
	commits  map[string]*Commit
	tags     map[string]*Tag
	trees    map[string]*tree  // by id
	treeKey  map[string]string // canonical content -> id
	blobs    map[string][]byte // by id
	blobKey  map[string]string // content -> id
	order    []string          // commit ids in creation order

	// signing identity used by Commit(sign=true); Unsigned if none
	Signer int
	// KeyIndex maps the bytes handed to CommitUsingSpecificKey to a key index
	KeyIndex func(pem []byte) int
	// SigFunc renders the signature over payload by the key with that index
	SigFunc func(payload []byte, signer int) []byte

	Config map[gitstore.ConfigKey]string

	// fault injection
	Calls    int
	FailAt   int // 1-based index of the call to fail; 0 = never
	Mode     FaultMode
	CallLog  []string
	LogCalls bool

	// OnCall, if set, is invoked at the start of every storage call (C17 yield)
	OnCall func(method string)
}

// Content-addressed ids (blobs, trees) are shared by all stores of a process:
// the same content has the same id in every store, as in git.
var (
	sharedBlobKey = map[string]string{}
	sharedTreeKey = map[string]string{}
	sharedNext    int
)

func sharedID(kind byte) githash.Hash {
	sharedNext++
	h := make([]byte, 20)
	h[0] = 0xc0
	h[1] = kind
	h[16] = byte(sharedNext >> 24)
	h[17] = byte(sharedNext >> 16)
	h[18] = byte(sharedNext >> 8)
	h[19] = byte(sharedNext)
	return githash.Hash(h)
}

// epoch distinguishes the stores created in one process, so that the
// process-wide rsl entry cache (keyed by commit id) never confuses two stores.
var epoch int

func New(salt byte) *Store {
	epoch++
	return &Store{
		salt:    salt,
		epoch:   epoch,
		refs:    map[string]githash.Hash{},
		commits: map[string]*Commit{},
		tags:    map[string]*Tag{},
		trees:   map[string]*tree{},
		treeKey: map[string]string{},
		blobs:   map[string][]byte{},
		blobKey: map[string]string{},
		Signer:  Unsigned,
		Config:  map[gitstore.ConfigKey]string{},
	}
}

var _ gitstore.Storer = (*Store)(nil)

// call accounts for one storage call and applies fault injection.  It
// returns true if the call must fail.
func (s *Store) call(method string) bool {
	if s.OnCall != nil {
		s.OnCall(method)
	}
	s.Calls++
	if s.LogCalls {
		s.CallLog = append(s.CallLog, method)
	}
	if s.Mode == FaultError && s.Calls == s.FailAt {
		return true
	}
	return false
}

// Call / After expose the accounting hooks to command-level models built on
// the store (one git command = one storage call).
func (s *Store) Call(method string) bool { return s.call(method) }
func (s *Store) After()                  { s.after() }

// after is called at the end of a mutating or reading call (crash point).
func (s *Store) after() {
	if s.Mode == FaultCrash && s.Calls == s.FailAt {
		s.Mode = NoFault
		panic(Crash{})
	}
}

func (s *Store) newID(kind byte) githash.Hash {
	s.next++
	h := make([]byte, 20)
	h[0] = 0xa0 | (s.salt & 0x0f)
	h[1] = kind
	h[2] = byte(s.epoch >> 16)
	h[3] = byte(s.epoch >> 8)
	h[4] = byte(s.epoch)
	h[16] = byte(s.next >> 24)
	h[17] = byte(s.next >> 16)
	h[18] = byte(s.next >> 8)
	h[19] = byte(s.next)
	return githash.Hash(h)
}

func key(h githash.Hash) string { return string(h) }

func clone(h githash.Hash) githash.Hash {
	if h == nil {
		return nil
	}
	c := make([]byte, len(h))
	copy(c, h)
	return githash.Hash(c)
}

// ---------------------------------------------------------------------------
// references

func (s *Store) GetReference(refName string) (githash.Hash, error) {
	if s.call("GetReference " + refName) {
		return nil, ErrInjected
	}
	defer s.after()
	h, ok := s.refs[refName]
	if !ok {
		return nil, gitstore.ErrReferenceNotFound
	}
	return clone(h), nil
}

func (s *Store) setRef(refName string, id githash.Hash) {
	if _, ok := s.refs[refName]; !ok {
		s.refOrder = append(s.refOrder, refName)
	}
	s.refs[refName] = clone(id)
}

func (s *Store) SetReference(refName string, gitID githash.Hash) error {
	if s.call("SetReference") {
		return ErrInjected
	}
	defer s.after()
	s.setRef(refName, gitID)
	return nil
}

func (s *Store) DeleteReference(refName string) error {
	if s.call("DeleteReference") {
		return ErrInjected
	}
	defer s.after()
	if _, ok := s.refs[refName]; !ok {
		return gitstore.ErrReferenceNotFound
	}
	delete(s.refs, refName)
	for i, r := range s.refOrder {
		if r == refName {
			s.refOrder = append(s.refOrder[:i:i], s.refOrder[i+1:]...)
			break
		}
	}
	return nil
}

// Refs returns a copy of the reference table (harness back door, not counted).
func (s *Store) Refs() map[string]string {
	m := map[string]string{}
	for _, r := range s.refOrder {
		m[r] = s.refs[r].String()
	}
	return m
}

// RefNames returns the reference names in creation order.
func (s *Store) RefNames() []string { return append([]string(nil), s.refOrder...) }

// Ref returns the tip of a reference without counting a call (nil if unset).
func (s *Store) Ref(refName string) githash.Hash { return clone(s.refs[refName]) }

// ---------------------------------------------------------------------------
// blobs and trees

func (s *Store) ReadBlob(blobID githash.Hash) ([]byte, error) {
	if s.call("ReadBlob") {
		return nil, ErrInjected
	}
	defer s.after()
	b, ok := s.blobs[key(blobID)]
	if !ok {
		return nil, ErrNoObject
	}
	return append([]byte(nil), b...), nil
}

func (s *Store) WriteBlob(contents []byte) (githash.Hash, error) {
	if s.call("WriteBlob") {
		return nil, ErrInjected
	}
	defer s.after()
	return s.writeBlob(contents), nil
}

func (s *Store) writeBlob(contents []byte) githash.Hash {
	k := string(contents)
	if id, ok := sharedBlobKey[k]; ok {
		if _, have := s.blobs[id]; !have {
			s.blobs[id] = append([]byte(nil), contents...)
		}
		return githash.Hash(id)
	}
	id := sharedID('b')
	s.blobs[key(id)] = append([]byte(nil), contents...)
	sharedBlobKey[k] = key(id)
	return id
}

func (s *Store) emptyTree() githash.Hash { return s.internTree(nil) }

func (s *Store) EmptyTree() (githash.Hash, error) {
	if s.call("EmptyTree") {
		return nil, ErrInjected
	}
	defer s.after()
	return s.emptyTree(), nil
}

func (s *Store) internTree(ents []treeEnt) githash.Hash {
	sort.Slice(ents, func(i, j int) bool { return ents[i].name < ents[j].name })
	var sb strings.Builder
	for _, e := range ents {
		sb.WriteString(strconv.Itoa(int(e.kind)))
		sb.WriteString(" ")
		sb.WriteString(e.id.String())
		sb.WriteString(" ")
		sb.WriteString(strconv.Itoa(len(e.name)))
		sb.WriteString(":")
		sb.WriteString(e.name)
		sb.WriteString("\n")
	}
	k := sb.String()
	if id, ok := sharedTreeKey[k]; ok {
		if _, have := s.trees[id]; !have {
			s.trees[id] = &tree{id: githash.Hash(id), ents: ents}
		}
		return githash.Hash(id)
	}
	id := sharedID('t')
	s.trees[key(id)] = &tree{id: id, ents: ents}
	sharedTreeKey[k] = key(id)
	return id
}

type dirNode struct {
	files map[string]githash.Hash
	dirs  map[string]*dirNode
	names []string // insertion order of dirs
	subs  map[string]githash.Hash // pre-built subtrees
}

func newDir() *dirNode {
	return &dirNode{files: map[string]githash.Hash{}, dirs: map[string]*dirNode{}, subs: map[string]githash.Hash{}}
}

func (s *Store) WriteTree(entries []gitstore.TreeEntry) (githash.Hash, error) {
	if s.call("WriteTree") {
		return nil, ErrInjected
	}
	defer s.after()
	return s.writeTree(entries)
}

func (s *Store) writeTree(entries []gitstore.TreeEntry) (githash.Hash, error) {
	root := newDir()
	seen := map[string]bool{}
	for _, e := range entries {
		if seen[e.Path] {
			return nil, gitstore.ErrDuplicateTreePath
		}
		seen[e.Path] = true
		parts := strings.Split(e.Path, "/")
		d := root
		for _, p := range parts[:len(parts)-1] {
			nd, ok := d.dirs[p]
			if !ok {
				nd = newDir()
				d.dirs[p] = nd
				d.names = append(d.names, p)
			}
			d = nd
		}
		last := parts[len(parts)-1]
		if e.Kind == gitstore.KindSubtree {
			d.subs[last] = e.ID
		} else {
			d.files[last] = e.ID
		}
	}
	return s.buildDir(root), nil
}

func (s *Store) buildDir(d *dirNode) githash.Hash {
	var ents []treeEnt
	var fnames []string
	for n := range d.files {
		fnames = append(fnames, n)
	}
	sort.Strings(fnames)
	for _, n := range fnames {
		ents = append(ents, treeEnt{name: n, id: d.files[n], kind: gitstore.KindBlob})
	}
	var snames []string
	for n := range d.subs {
		snames = append(snames, n)
	}
	sort.Strings(snames)
	for _, n := range snames {
		ents = append(ents, treeEnt{name: n, id: d.subs[n], kind: gitstore.KindSubtree})
	}
	for _, n := range d.names {
		ents = append(ents, treeEnt{name: n, id: s.buildDir(d.dirs[n]), kind: gitstore.KindSubtree})
	}
	return s.internTree(ents)
}

func (s *Store) flatten(treeID githash.Hash, prefix string, out map[string]githash.Hash) error {
	t, ok := s.trees[key(treeID)]
	if !ok {
		return ErrNoObject
	}
	for _, e := range t.ents {
		if e.kind == gitstore.KindSubtree {
			if err := s.flatten(e.id, prefix+e.name+"/", out); err != nil {
				return err
			}
		} else {
			out[prefix+e.name] = clone(e.id)
		}
	}
	return nil
}

func (s *Store) GetAllFilesInTree(treeID githash.Hash) (map[string]githash.Hash, error) {
	if s.call("GetAllFilesInTree") {
		return nil, ErrInjected
	}
	defer s.after()
	out := map[string]githash.Hash{}
	if err := s.flatten(treeID, "", out); err != nil {
		return nil, err
	}
	return out, nil
}

func (s *Store) GetEntriesInTree(treeID githash.Hash) ([]gitstore.TreeEntry, error) {
	if s.call("GetEntriesInTree") {
		return nil, ErrInjected
	}
	defer s.after()
	t, ok := s.trees[key(treeID)]
	if !ok {
		return nil, ErrNoObject
	}
	var out []gitstore.TreeEntry
	for _, e := range t.ents {
		out = append(out, gitstore.TreeEntry{Path: e.name, ID: clone(e.id), Kind: e.kind})
	}
	return out, nil
}

func (s *Store) GetPathIDInTree(treeID githash.Hash, treePath string) (githash.Hash, error) {
	if s.call("GetPathIDInTree") {
		return nil, ErrInjected
	}
	defer s.after()
	cur := treeID
	parts := strings.Split(strings.TrimSuffix(treePath, "/"), "/")
	for i, p := range parts {
		t, ok := s.trees[key(cur)]
		if !ok {
			return nil, ErrNoObject
		}
		found := false
		for _, e := range t.ents {
			if e.name == p {
				if i == len(parts)-1 {
					return clone(e.id), nil
				}
				if e.kind != gitstore.KindSubtree {
					return nil, ErrNoObject
				}
				cur = e.id
				found = true
				break
			}
		}
		if !found {
			return nil, ErrNoObject
		}
	}
	return nil, ErrNoObject
}

// ---------------------------------------------------------------------------
// commits

func (s *Store) commit(id githash.Hash) (*Commit, error) {
	c, ok := s.commits[key(id)]
	if !ok {
		if _, isOther := s.trees[key(id)]; isOther {
			return nil, ErrNotCommit
		}
		if _, isOther := s.blobs[key(id)]; isOther {
			return nil, ErrNotCommit
		}
		return nil, ErrNoObject
	}
	return c, nil
}

func (s *Store) GetCommitTreeID(commitID githash.Hash) (githash.Hash, error) {
	if s.call("GetCommitTreeID") {
		return nil, ErrInjected
	}
	defer s.after()
	c, err := s.commit(commitID)
	if err != nil {
		return nil, err
	}
	return clone(c.Tree), nil
}

func (s *Store) GetCommitMessage(commitID githash.Hash) (string, error) {
	if s.call("GetCommitMessage") {
		return "", ErrInjected
	}
	defer s.after()
	c, err := s.commit(commitID)
	if err != nil {
		return "", err
	}
	return c.Message, nil
}

func (s *Store) GetCommitParentIDs(commitID githash.Hash) ([]githash.Hash, error) {
	if s.call("GetCommitParentIDs") {
		return nil, ErrInjected
	}
	defer s.after()
	c, err := s.commit(commitID)
	if err != nil {
		return nil, err
	}
	if len(c.Parents) == 0 {
		return nil, nil
	}
	out := make([]githash.Hash, len(c.Parents))
	for i, p := range c.Parents {
		out[i] = clone(p)
	}
	return out, nil
}

func (s *Store) ancestors(id githash.Hash, into map[string]bool) {
	stack := []githash.Hash{id}
	for len(stack) > 0 {
		cur := stack[len(stack)-1]
		stack = stack[:len(stack)-1]
		if into[key(cur)] {
			continue
		}
		c, ok := s.commits[key(cur)]
		if !ok {
			continue
		}
		into[key(cur)] = true
		stack = append(stack, c.Parents...)
	}
}

func (s *Store) GetCommitsBetweenRange(commitNewID, commitOldID githash.Hash) ([]githash.Hash, error) {
	if s.call("GetCommitsBetweenRange") {
		return nil, ErrInjected
	}
	defer s.after()
	if _, err := s.commit(commitNewID); err != nil {
		return nil, err
	}
	incl := map[string]bool{}
	s.ancestors(commitNewID, incl)
	if !commitOldID.IsZero() {
		if _, err := s.commit(commitOldID); err != nil {
			return nil, err
		}
		excl := map[string]bool{}
		s.ancestors(commitOldID, excl)
		for k := range excl {
			delete(incl, k)
		}
	}
	var ids []string
	for k := range incl {
		ids = append(ids, githash.Hash(k).String())
	}
	sort.Strings(ids) // gitinterface sorts by id
	out := make([]githash.Hash, 0, len(ids))
	for _, h := range ids {
		hh, _ := githash.NewHash(h)
		out = append(out, hh)
	}
	return out, nil
}

func (s *Store) diffTrees(a, b githash.Hash) ([]string, error) {
	fa, fb := map[string]githash.Hash{}, map[string]githash.Hash{}
	if err := s.flatten(a, "", fa); err != nil {
		return nil, err
	}
	if err := s.flatten(b, "", fb); err != nil {
		return nil, err
	}
	set := map[string]bool{}
	for p, id := range fa {
		if o, ok := fb[p]; !ok || !o.Equal(id) {
			set[p] = true
		}
	}
	for p := range fb {
		if _, ok := fa[p]; !ok {
			set[p] = true
		}
	}
	var out []string
	for p := range set {
		out = append(out, p)
	}
	sort.Strings(out)
	return out, nil
}

func (s *Store) GetFilePathsChangedByCommit(commitID githash.Hash) ([]string, error) {
	if s.call("GetFilePathsChangedByCommit") {
		return nil, ErrInjected
	}
	defer s.after()
	c, err := s.commit(commitID)
	if err != nil {
		return nil, err
	}
	switch len(c.Parents) {
	case 0:
		files := map[string]githash.Hash{}
		if err := s.flatten(c.Tree, "", files); err != nil {
			return nil, err
		}
		var out []string
		for p := range files {
			out = append(out, p)
		}
		sort.Strings(out)
		return out, nil
	case 1:
		p, err := s.commit(c.Parents[0])
		if err != nil {
			return nil, err
		}
		d, err := s.diffTrees(p.Tree, c.Tree)
		if err != nil || len(d) == 0 {
			return nil, err
		}
		return d, nil
	}
	last, err := s.commit(c.Parents[len(c.Parents)-1])
	if err != nil {
		return nil, err
	}
	if last.Tree.Equal(c.Tree) {
		return nil, nil
	}
	set := map[string]bool{}
	for _, pid := range c.Parents {
		p, err := s.commit(pid)
		if err != nil {
			return nil, err
		}
		d, err := s.diffTrees(p.Tree, c.Tree)
		if err != nil {
			return nil, err
		}
		for _, x := range d {
			set[x] = true
		}
	}
	out := make([]string, 0, len(set))
	for p := range set {
		out = append(out, p)
	}
	sort.Strings(out)
	return out, nil
}

func (s *Store) KnowsCommit(commitID, ancestorID githash.Hash) (bool, error) {
	if s.call("KnowsCommit") {
		return false, ErrInjected
	}
	defer s.after()
	if _, err := s.commit(commitID); err != nil {
		return false, err
	}
	if _, err := s.commit(ancestorID); err != nil {
		return false, err
	}
	anc := map[string]bool{}
	s.ancestors(commitID, anc)
	return anc[key(ancestorID)], nil
}

func (s *Store) mergeBase(a, b githash.Hash) githash.Hash {
	aa := map[string]bool{}
	s.ancestors(a, aa)
	// newest common ancestor by creation order
	ba := map[string]bool{}
	s.ancestors(b, ba)
	for i := len(s.order) - 1; i >= 0; i-- {
		if aa[s.order[i]] && ba[s.order[i]] {
			return githash.Hash(s.order[i])
		}
	}
	return nil
}

func (s *Store) GetMergeTree(commitAID, commitBID githash.Hash) (githash.Hash, error) {
	if s.call("GetMergeTree") {
		return nil, ErrInjected
	}
	defer s.after()
	cb, err := s.commit(commitBID)
	if err != nil {
		return githash.ZeroHash, err
	}
	if commitAID.IsZero() {
		return clone(cb.Tree), nil
	}
	ca, err := s.commit(commitAID)
	if err != nil {
		return githash.ZeroHash, err
	}
	base := s.mergeBase(commitAID, commitBID)
	var fbase map[string]githash.Hash
	fbase = map[string]githash.Hash{}
	if base != nil {
		if err := s.flatten(s.commits[key(base)].Tree, "", fbase); err != nil {
			return githash.ZeroHash, err
		}
	}
	fa, fb := map[string]githash.Hash{}, map[string]githash.Hash{}
	if err := s.flatten(ca.Tree, "", fa); err != nil {
		return githash.ZeroHash, err
	}
	if err := s.flatten(cb.Tree, "", fb); err != nil {
		return githash.ZeroHash, err
	}
	paths := map[string]bool{}
	for p := range fbase {
		paths[p] = true
	}
	for p := range fa {
		paths[p] = true
	}
	for p := range fb {
		paths[p] = true
	}
	var names []string
	for p := range paths {
		names = append(names, p)
	}
	sort.Strings(names)
	var ents []gitstore.TreeEntry
	for _, p := range names {
		o, a, b := fbase[p], fa[p], fb[p]
		var pick githash.Hash
		switch {
		case eqOpt(a, b):
			pick = a
		case eqOpt(o, a):
			pick = b
		case eqOpt(o, b):
			pick = a
		default:
			return githash.ZeroHash, ErrMergeConflict
		}
		if pick != nil {
			ents = append(ents, gitstore.TreeEntry{Path: p, ID: pick, Kind: gitstore.KindBlob})
		}
	}
	return s.writeTree(ents)
}

func eqOpt(a, b githash.Hash) bool {
	if a == nil || b == nil {
		return a == nil && b == nil
	}
	return a.Equal(b)
}

func (s *Store) GetTagTarget(tagID githash.Hash) (githash.Hash, error) {
	if s.call("GetTagTarget") {
		return nil, ErrInjected
	}
	defer s.after()
	t, ok := s.tags[key(tagID)]
	if !ok {
		return nil, ErrNoObject
	}
	return clone(t.Target), nil
}

// SigPayload is the signed payload of an object: it names the object.
func SigPayload(id githash.Hash) []byte { return []byte("object " + id.String()) }

// Sig renders the signature of an object by the signer index; the harness
// installs SigFunc (key table); without it the signature is {'S', index}.
func (s *Store) sig(payload []byte, signer int) []byte {
	if signer == Unsigned {
		return []byte{}
	}
	if s.SigFunc != nil {
		return s.SigFunc(payload, signer)
	}
	return []byte{'S', byte(signer)}
}

func (s *Store) GetObjectSignature(objectID githash.Hash) ([]byte, []byte, error) {
	if s.call("GetObjectSignature") {
		return nil, nil, ErrInjected
	}
	defer s.after()
	if c, ok := s.commits[key(objectID)]; ok {
		p := SigPayload(objectID)
		return p, s.sig(p, c.Signer), nil
	}
	if t, ok := s.tags[key(objectID)]; ok {
		p := SigPayload(objectID)
		return p, s.sig(p, t.Signer), nil
	}
	return nil, nil, ErrNoObject
}

func (s *Store) addCommit(treeID githash.Hash, parents []githash.Hash, message string, signer int) githash.Hash {
	id := s.newID('c')
	s.commits[key(id)] = &Commit{ID: id, Tree: clone(treeID), Parents: parents, Message: message, Signer: signer}
	s.order = append(s.order, key(id))
	return id
}

func (s *Store) commitTo(treeID githash.Hash, targetRef, message string, signer int) (githash.Hash, error) {
	if _, ok := s.trees[key(treeID)]; !ok {
		return nil, ErrNoObject
	}
	var parents []githash.Hash
	old, had := s.refs[targetRef]
	if had {
		parents = []githash.Hash{clone(old)}
	}
	id := s.addCommit(treeID, parents, message, signer)
	s.setRef(targetRef, id)
	return id, nil
}

func (s *Store) Commit(treeID githash.Hash, targetRef, message string, sign bool) (githash.Hash, error) {
	if s.call("Commit") {
		return nil, ErrInjected
	}
	defer s.after()
	signer := Unsigned
	if sign {
		signer = s.Signer
	}
	return s.commitTo(treeID, targetRef, message, signer)
}

func (s *Store) CommitUsingSpecificKey(treeID githash.Hash, targetRef, message string, signingKeyPEMBytes []byte) (githash.Hash, error) {
	if s.call("CommitUsingSpecificKey") {
		return nil, ErrInjected
	}
	defer s.after()
	signer := Unsigned
	if s.KeyIndex != nil {
		signer = s.KeyIndex(signingKeyPEMBytes)
	}
	return s.commitTo(treeID, targetRef, message, signer)
}

func (s *Store) ZeroHash() githash.Hash { return githash.ZeroHash }

func (s *Store) LookupConfig(k gitstore.ConfigKey) (string, bool, error) {
	if s.call("LookupConfig") {
		return "", false, ErrInjected
	}
	defer s.after()
	v, ok := s.Config[k]
	return v, ok, nil
}

func (s *Store) ResetDueToError(cause error, refName string, commitID githash.Hash) error {
	if s.call("ResetDueToError") {
		return errors.Join(cause, ErrInjected)
	}
	defer s.after()
	s.setRef(refName, commitID)
	return cause
}

// ---------------------------------------------------------------------------
// harness back doors (not counted as storage calls)

// RawCommit creates a commit with arbitrary parents and message and, if ref
// is non-empty, points ref at it.
func (s *Store) RawCommit(ref string, treeID githash.Hash, parents []githash.Hash, message string, signer int) githash.Hash {
	id := s.addCommit(treeID, parents, message, signer)
	if ref != "" {
		s.setRef(ref, id)
	}
	return id
}

// PutCommit creates a commit with a caller-chosen id.
func (s *Store) PutCommit(id githash.Hash, treeID githash.Hash, parents []githash.Hash, message string, signer int) {
	s.commits[key(id)] = &Commit{ID: clone(id), Tree: clone(treeID), Parents: parents, Message: message, Signer: signer}
	s.order = append(s.order, key(id))
}

// DropRef removes a reference without counting a call.
func (s *Store) DropRef(refName string) {
	if _, ok := s.refs[refName]; !ok {
		return
	}
	delete(s.refs, refName)
	for i, r := range s.refOrder {
		if r == refName {
			s.refOrder = append(s.refOrder[:i:i], s.refOrder[i+1:]...)
			break
		}
	}
}

// SetRef points a reference without counting a call.
func (s *Store) SetRef(refName string, id githash.Hash) { s.setRef(refName, id) }

// RawTag creates a tag object.
func (s *Store) RawTag(target githash.Hash, signer int) githash.Hash {
	id := s.newID('g')
	s.tags[key(id)] = &Tag{ID: id, Target: clone(target), Signer: signer}
	return id
}

// RawBlob stores a blob without counting a call.
func (s *Store) RawBlob(contents []byte) githash.Hash { return s.writeBlob(contents) }

// RawTree writes a tree from flat entries without counting a call.
func (s *Store) RawTree(entries []gitstore.TreeEntry) githash.Hash {
	id, err := s.writeTree(entries)
	if err != nil {
		panic(err)
	}
	return id
}

// RawEmptyTree returns the empty tree id without counting a call.
func (s *Store) RawEmptyTree() githash.Hash { return s.emptyTree() }

// TreeDigest renders the full content of a tree (paths and blob contents), so
// that trees of different stores can be compared.
func (s *Store) TreeDigest(treeID githash.Hash) string {
	files := map[string]githash.Hash{}
	if err := s.flatten(treeID, "", files); err != nil {
		return "<missing tree>"
	}
	var names []string
	for p := range files {
		names = append(names, p)
	}
	sort.Strings(names)
	var sb strings.Builder
	for _, p := range names {
		sb.WriteString(p)
		sb.WriteString("=")
		sb.WriteString(string(s.blobs[key(files[p])]))
		sb.WriteString(";")
	}
	return sb.String()
}

// TreeEntries returns the immediate entries of a tree (nil, false if absent).
func (s *Store) TreeEntries(id githash.Hash) ([]gitstore.TreeEntry, bool) {
	t, ok := s.trees[key(id)]
	if !ok {
		return nil, false
	}
	var out []gitstore.TreeEntry
	for _, e := range t.ents {
		out = append(out, gitstore.TreeEntry{Path: e.name, ID: clone(e.id), Kind: e.kind})
	}
	return out, true
}

// HasObject reports whether any object with that id exists.
func (s *Store) HasObject(id githash.Hash) bool {
	k := key(id)
	if _, ok := s.commits[k]; ok {
		return true
	}
	if _, ok := s.trees[k]; ok {
		return true
	}
	if _, ok := s.blobs[k]; ok {
		return true
	}
	_, ok := s.tags[k]
	return ok
}

// ObjectType returns "commit", "tree", "blob", "tag" or "".
func (s *Store) ObjectType(id githash.Hash) string {
	k := key(id)
	switch {
	case s.commits[k] != nil:
		return "commit"
	case s.trees[k] != nil:
		return "tree"
	case s.tags[k] != nil:
		return "tag"
	}
	if _, ok := s.blobs[k]; ok {
		return "blob"
	}
	return ""
}

// PutBlob stores a blob under a caller-chosen id (used to give two stores the
// same id for the same content, as content addressing does in git).
func (s *Store) PutBlob(id githash.Hash, contents []byte) {
	s.blobs[key(id)] = append([]byte(nil), contents...)
	sharedBlobKey[string(contents)] = key(id)
}

// CopyCommitsFrom copies every commit reachable from tip in other (with the
// trees and blobs they name) into s, keeping the ids: what a fetch does.
func (s *Store) CopyCommitsFrom(other *Store, tip githash.Hash) {
	reach := map[string]bool{}
	other.ancestors(tip, reach)
	for _, k := range other.order {
		if !reach[k] {
			continue
		}
		if _, have := s.commits[k]; have {
			continue
		}
		c := other.commits[k]
		s.commits[k] = &Commit{ID: clone(c.ID), Tree: clone(c.Tree), Parents: c.Parents, Message: c.Message, Signer: c.Signer}
		s.order = append(s.order, k)
		s.copyTreeFrom(other, c.Tree)
	}
}

func (s *Store) copyTreeFrom(other *Store, id githash.Hash) {
	if _, have := s.trees[key(id)]; have {
		return
	}
	t, ok := other.trees[key(id)]
	if !ok {
		return
	}
	s.trees[key(id)] = t
	for _, e := range t.ents {
		if e.kind == gitstore.KindSubtree {
			s.copyTreeFrom(other, e.id)
		} else if b, ok := other.blobs[key(e.id)]; ok {
			s.blobs[key(e.id)] = b
		}
	}
}

// MergeBase returns the newest common ancestor of a and b (nil if none).
func (s *Store) MergeBase(a, b githash.Hash) githash.Hash { return s.mergeBase(a, b) }

// CommitInfo returns the stored commit (nil if absent).
func (s *Store) CommitInfo(id githash.Hash) *Commit { return s.commits[key(id)] }

// IsAncestor reports whether anc is reachable from id (without counting a call).
func (s *Store) IsAncestor(id, anc githash.Hash) bool {
	m := map[string]bool{}
	s.ancestors(id, m)
	return m[key(anc)]
}

// NumCommits returns how many commits exist.
func (s *Store) NumCommits() int { return len(s.order) }

// SetFault arms fault injection relative to the current call counter.
func (s *Store) SetFault(k int, mode FaultMode) {
	s.Calls = 0
	s.FailAt = k
	s.Mode = mode
}

// ClearFault disarms fault injection.
func (s *Store) ClearFault() { s.Mode = NoFault; s.FailAt = 0 }
