package gittuf

// C15 harness (reconcile half): reconciling a diverged local log with a remote
// never drops, reorders, un-revokes or invents log entries.

import (
	"context"
	"strconv"

	zzmem "github.com/gittuf/gittuf/internal/zzmem"
	verif "github.com/gittuf/gittuf/internal/zzverif"
	"github.com/gittuf/gittuf/pkg/githash"
	"github.com/gittuf/gittuf/pkg/gitinterface"
	"github.com/gittuf/gittuf/pkg/rsl"
)

// zz15Entry is the abstract form of a log entry.
type zz15Entry struct {
	kind    int // 0 reference, 1 annotation, 2 propagation
	ref     string
	target  githash.Hash
	targets []int // annotation: abstract positions (in the side's own log) of the entries referred to
	skip    bool
	id      githash.Hash
}

var zz15Refs = []string{"refs/heads/main", "refs/heads/feature", "refs/heads/other"}

func zz15Must(err error) {
	if err != nil {
		panic("harness setup failed: " + err.Error())
	}
}

// zz15Record appends an abstract entry to store s (log = this side's abstract log so far).
func zz15Record(s *zzmem.Store, log []zz15Entry, e zz15Entry) zz15Entry {
	switch e.kind {
	case 0:
		zz15Must(rsl.NewReferenceEntry(e.ref, e.target).Commit(s, false))
	case 1:
		var ids []githash.Hash
		for _, t := range e.targets {
			ids = append(ids, log[t].id)
		}
		zz15Must(rsl.NewAnnotationEntry(ids, e.skip, "note").Commit(s, false))
	default:
		zz15Must(rsl.NewPropagationEntry(e.ref, e.target, "https://example.com/up", e.target).Commit(s, false))
	}
	e.id = s.Ref(rsl.Ref)
	return e
}

// zz15Read reads back a log (oldest first) through the rsl readers.
func zz15Read(s *zzmem.Store) []rsl.Entry {
	var out []rsl.Entry
	e, err := rsl.GetLatestEntry(s)
	if err != nil {
		return nil
	}
	for {
		out = append([]rsl.Entry{e}, out...)
		p, err := rsl.GetParentForEntry(s, e)
		if err != nil {
			break
		}
		e = p
	}
	return out
}

func HarnessC15Reconcile() {
	remote := zzmem.New(1)
	local := zzmem.New(2)
	tree := remote.RawEmptyTree()
	var targets []githash.Hash
	for i := 0; i < 4; i++ {
		targets = append(targets, remote.RawCommit("", tree, nil, "t"+strconv.Itoa(i), zzmem.Unsigned))
	}

	// common prefix (recorded on the remote, then fetched)
	var common []zz15Entry
	common = append(common, zz15Record(remote, common, zz15Entry{kind: 0, ref: zz15Refs[0], target: targets[0]}))
	local.CopyCommitsFrom(remote, remote.Ref(rsl.Ref))
	local.SetRef(rsl.Ref, remote.Ref(rsl.Ref))

	genSuffix := func(side string, s *zzmem.Store, n int) []zz15Entry {
		log := append([]zz15Entry(nil), common...)
		for i := 0; i < n; i++ {
			p := side + strconv.Itoa(i)
			nk := 3
			if side == "r" {
				nk = 2 // remote-only propagation entries add nothing to the question
			}
			e := zz15Entry{kind: verif.Concrete(verif.Choice(p+".kind", nk))}
			switch e.kind {
			case 1:
				e.targets = []int{verif.Concrete(verif.Choice(p+".target", len(log)))}
				e.skip = verif.ConcreteBool(verif.Bool(p + ".skip"))
			default:
				e.ref = zz15Refs[verif.Concrete(verif.Choice(p+".ref", len(zz15Refs)))]
				e.target = targets[1+i]
			}
			log = append(log, zz15Record(s, log, e))
		}
		return log[len(common):]
	}
	nl := verif.Concrete(verif.IntRange("nlocal", 1, verif.Bound("suffix", 2, 3)))
	nr := verif.Concrete(verif.IntRange("nremote", 1, verif.Bound("suffix", 2, 3)))
	remoteOnly := genSuffix("r", remote, nr)
	localOnly := genSuffix("l", local, nl)

	repoModel := gitinterface.ZZNewModelRepo(local)
	gitinterface.ZZAddModelRemote(repoModel, "origin", remote)
	repo := &Repository{r: repoModel}

	beforeTip := local.Ref(rsl.Ref)
	err := repo.ReconcileLocalRSLWithRemote(context.Background(), "origin", false)

	// both sides changed the same reference (reference entries only) -> refuse
	conflict := false
	for _, l := range localOnly {
		for _, r := range remoteOnly {
			if l.kind == 0 && r.kind == 0 && l.ref == r.ref {
				conflict = true
			}
		}
	}
	if conflict {
		verif.Reach("conflict")
		verif.Assert(err != nil, "conflict-is-refused")
		verif.Assert(local.Ref(rsl.Ref).Equal(beforeTip), "refused-reconcile-changes-nothing")
		return
	}
	verif.Assert(err == nil, "reconcile-ok")
	if err != nil {
		return
	}
	verif.Reach("reconciled")
	verif.Assert(local.IsAncestor(local.Ref(rsl.Ref), remote.Ref(rsl.Ref)), "local-log-extends-the-remote-tip")
	after := zz15Read(local)
	base := len(common) + len(remoteOnly)
	// (C15-F1, fixed: propagation entries of the local-only suffix used to be
	// dropped and annotations used to keep the ids of the abandoned entries)
	verif.Assert(len(after) == base+len(localOnly), "every-local-only-entry-is-re-recorded-exactly-once")
	if len(after) != base+len(localOnly) {
		return
	}
	for i, l := range localOnly {
		got := after[base+i]
		switch l.kind {
		case 0:
			g, ok := got.(*rsl.ReferenceEntry)
			verif.Assert(ok && g.RefName == l.ref && g.TargetID.Equal(l.target), "reference-entry-keeps-ref-and-target-in-order")
		case 2:
			g, ok := got.(*rsl.PropagationEntry)
			verif.Assert(ok && g.RefName == l.ref && g.TargetID.Equal(l.target), "propagation-entry-keeps-ref-and-target-in-order")
		default:
			g, ok := got.(*rsl.AnnotationEntry)
			verif.Assert(ok && g.Skip == l.skip, "annotation-keeps-skip-flag-in-order")
			if ok {
				// it must refer to the counterpart of what it referred to
				t := l.targets[0]
				var want githash.Hash
				if t < len(common) {
					want = common[t].id // a shared entry keeps its id
				} else {
					want = after[base+(t-len(common))].GetID() // a local-only entry was re-recorded
				}
				verif.Assert(g.RefersTo(want), "annotation-refers-to-the-re-recorded-counterpart")
			}
		}
	}
}
