package gittuf

// C15 harness (reconcile half): reconciling a diverged local log with a remote
// never drops, reorders, un-revokes or invents log entries.

import (
	"context"
	"strconv"

	zzmem "github.com/gittuf/gittuf/internal/zzmem"
	verif "github.com/gittuf/gittuf/internal/zzverif"
	"github.com/gittuf/gittuf/pkg/githash"
	"github.com/gittuf/gittuf/pkg/gitinterface"
	"github.com/gittuf/gittuf/pkg/rsl"
)

// zz15Entry is the abstract form of a log entry.
type zz15Entry struct {
	kind    int // 0 reference, 1 annotation, 2 propagation
	ref     string
	target  githash.Hash
	targets []int // annotation: abstract positions (in the side's own log) of the entries referred to
	skip    bool
	id      githash.Hash
}

var zz15Refs = []string{"refs/heads/main", "refs/heads/feature", "refs/heads/other"}

func zz15Must(err error) {
	if err != nil {
		panic("harness setup failed: " + err.Error())
	}
}

// zz15Record appends an abstract entry to store s (log = this side's abstract log so far).
func zz15Record(s *zzmem.Store, log []zz15Entry, e zz15Entry) zz15Entry {
	switch e.kind {
	case 0:
		zz15Must(rsl.NewReferenceEntry(e.ref, e.target).Commit(s, false))
	case 1:
		var ids []githash.Hash
		for _, t := range e.targets {
			ids = append(ids, log[t].id)
		}
		zz15Must(rsl.NewAnnotationEntry(ids, e.skip, "note").Commit(s, false))
	default:
		zz15Must(rsl.NewPropagationEntry(e.ref, e.target, "https://example.com/up", e.target).Commit(s, false))
	}
	e.id = s.Ref(rsl.Ref)
	return e
}

// zz15Read reads back a log (oldest first) through the rsl readers.
func zz15Read(s *zzmem.Store) []rsl.Entry {
	var out []rsl.Entry
	e, err := rsl.GetLatestEntry(s)
	if err != nil {
		return nil
	}
	for {
		out = append([]rsl.Entry{e}, out...)
		p, err := rsl.GetParentForEntry(s, e)
		if err != nil {
			break
		}
		e = p
	}
	return out
}

func HarnessC15Reconcile() {
	remote := zzmem.New(1)
	local := zzmem.New(2)
	tree := remote.RawEmptyTree()
	var targets []githash.Hash
	for i := 0; i < 4; i++ {
		targets = append(targets, remote.RawCommit("", tree, nil, "t"+strconv.Itoa(i), zzmem.Unsigned))
	}

	// common prefix (recorded on the remote, then fetched)
	var common []zz15Entry
	common = append(common, zz15Record(remote, common, zz15Entry{kind: 0, ref: zz15Refs[0], target: targets[0]}))
	local.CopyCommitsFrom(remote, remote.Ref(rsl.Ref))
	local.SetRef(rsl.Ref, remote.Ref(rsl.Ref))

	genSuffix := func(side string, s *zzmem.Store, n int) []zz15Entry {
		log := append([]zz15Entry(nil), common...)
		for i := 0; i < n; i++ {
			p := side + strconv.Itoa(i)
			nk := 3
			if side == "r" {
				nk = 2 // remote-only propagation entries add nothing to the question
			}
			e := zz15Entry{kind: verif.Concrete(verif.Choice(p+".kind", nk))}
			switch e.kind {
			case 1:
				e.targets = []int{verif.Concrete(verif.Choice(p+".target", len(log)))}
				e.skip = verif.ConcreteBool(verif.Bool(p + ".skip"))
			default:
				e.ref = zz15Refs[verif.Concrete(verif.Choice(p+".ref", len(zz15Refs)))]
				e.target = targets[1+i]
			}
			log = append(log, zz15Record(s, log, e))
		}
		return log[len(common):]
	}
	nl := verif.Concrete(verif.IntRange("nlocal", 1, verif.Bound("suffix", 2, 3)))
	nr := verif.Concrete(verif.IntRange("nremote", 1, verif.Bound("suffix", 2, 3)))
	remoteOnly := genSuffix("r", remote, nr)
	localOnly := genSuffix("l", local, nl)

	repoModel := gitinterface.ZZNewModelRepo(local)
	gitinterface.ZZAddModelRemote(repoModel, "origin", remote)
	repo := &Repository{r: repoModel}

	beforeTip := local.Ref(rsl.Ref)
	err := repo.ReconcileLocalRSLWithRemote(context.Background(), "origin", false)

	// both sides changed the same reference (reference entries only) -> refuse
	conflict := false
	for _, l := range localOnly {
		for _, r := range remoteOnly {
			if l.kind == 0 && r.kind == 0 && l.ref == r.ref {
				conflict = true
			}
		}
	}
	if conflict {
		verif.Reach("conflict")
		verif.Assert(err != nil, "conflict-is-refused")
		verif.Assert(local.Ref(rsl.Ref).Equal(beforeTip), "refused-reconcile-changes-nothing")
		return
	}
	verif.Assert(err == nil, "reconcile-ok")
	if err != nil {
		return
	}
	verif.Reach("reconciled")
	verif.Assert(local.IsAncestor(local.Ref(rsl.Ref), remote.Ref(rsl.Ref)), "local-log-extends-the-remote-tip")
	after := zz15Read(local)
	base := len(common) + len(remoteOnly)
	// (C15-F1, fixed: propagation entries of the local-only suffix used to be
	// dropped and annotations used to keep the ids of the abandoned entries)
	verif.Assert(len(after) == base+len(localOnly), "every-local-only-entry-is-re-recorded-exactly-once")
	if len(after) != base+len(localOnly) {
		return
	}
	for i, l := range localOnly {
		got := after[base+i]
		switch l.kind {
		case 0:
			g, ok := got.(*rsl.ReferenceEntry)
			verif.Assert(ok && g.RefName == l.ref && g.TargetID.Equal(l.target), "reference-entry-keeps-ref-and-target-in-order")
		case 2:
			g, ok := got.(*rsl.PropagationEntry)
			verif.Assert(ok && g.RefName == l.ref && g.TargetID.Equal(l.target), "propagation-entry-keeps-ref-and-target-in-order")
		default:
			g, ok := got.(*rsl.AnnotationEntry)
			verif.Assert(ok && g.Skip == l.skip, "annotation-keeps-skip-flag-in-order")
			if ok {
				// it must refer to the counterpart of what it referred to
				t := l.targets[0]
				var want githash.Hash
				if t < len(common) {
					want = common[t].id // a shared entry keeps its id
				} else {
					want = after[base+(t-len(common))].GetID() // a local-only entry was re-recorded
				}
				verif.Assert(g.RefersTo(want), "annotation-refers-to-the-re-recorded-counterpart")
			}
		}
	}
}

// ---------------------------------------------------------------------------
// Sync half: sync() moves a local reference only to the state its latest
// unskipped remote entry records, never rewinds or overwrites a diverged
// local reference unless told to, and publishes local-only entries together
// with the references their unskipped entries name.

func zz15RefsOf(s *zzmem.Store) map[string]string {
	out := map[string]string{}
	for _, n := range s.RefNames() {
		out[n] = s.Ref(n).String()
	}
	return out
}

// zz15LatestUnskipped: for every reference named in the part of s's log after
// `after` (nil: whole log), the target of its latest reference entry that no
// annotation in the log revokes -- read from the commit messages through the
// rsl readers of an untouched copy.
func zz15LatestUnskipped(s *zzmem.Store, nsuffix int) map[string]githash.Hash {
	all := zz15Read(s)
	skipped := map[string]bool{}
	for _, e := range all {
		if a, ok := e.(*rsl.AnnotationEntry); ok && a.Skip {
			for _, id := range a.RSLEntryIDs {
				skipped[id.String()] = true
			}
		}
	}
	out := map[string]githash.Hash{}
	for _, e := range all[len(all)-nsuffix:] {
		if r, ok := e.(*rsl.ReferenceEntry); ok && !skipped[r.ID.String()] {
			out[r.RefName] = r.TargetID
		}
	}
	return out
}

func HarnessC15Sync() {
	remote := zzmem.New(1)
	local := zzmem.New(2)
	tree := remote.RawEmptyTree()
	mk := func(s *zzmem.Store, msg string, parent githash.Hash) githash.Hash {
		var ps []githash.Hash
		if parent != nil {
			ps = []githash.Hash{parent}
		}
		return s.RawCommit("", tree, ps, msg, zzmem.Unsigned)
	}
	main, feature := zz15Refs[0], zz15Refs[1]
	c0 := mk(remote, "c0", nil)
	c1 := mk(remote, "c1", c0)
	c2 := mk(remote, "c2", c1)
	c3 := mk(remote, "c3", c2)
	f0 := mk(remote, "f0", nil)
	f1 := mk(remote, "f1", f0)
	// common prefix: main and feature recorded at c0 / f0 on the remote, cloned
	var common []zz15Entry
	remote.SetRef(main, c0)
	remote.SetRef(feature, f0)
	common = append(common, zz15Record(remote, common, zz15Entry{kind: 0, ref: main, target: c0}))
	common = append(common, zz15Record(remote, common, zz15Entry{kind: 0, ref: feature, target: f0}))
	local.CopyCommitsFrom(remote, remote.Ref(rsl.Ref))
	local.CopyCommitsFrom(remote, c3)
	local.CopyCommitsFrom(remote, f1)
	local.SetRef(rsl.Ref, remote.Ref(rsl.Ref))
	local.SetRef(main, c0)
	if verif.ConcreteBool(verif.Bool("local.has.feature")) {
		local.SetRef(feature, f0)
	}
	l1 := mk(local, "local work", c0) // a local commit on main the remote never saw

	// one side's suffix: reference entries moving main / feature forward and
	// skip annotations on entries of that suffix
	suffix := func(side string, s *zzmem.Store, n int) int {
		log := append([]zz15Entry(nil), common...)
		mainAt, featAt := 0, 0
		for i := 0; i < n; i++ {
			p := side + strconv.Itoa(i)
			switch verif.Concrete(verif.Choice(p+".kind", 3)) {
			case 0:
				mainAt++
				t := []githash.Hash{c1, c2, c3}[mainAt-1]
				s.SetRef(main, t)
				log = append(log, zz15Record(s, log, zz15Entry{kind: 0, ref: main, target: t}))
			case 1:
				if featAt == 1 {
					return -1
				}
				featAt++
				s.SetRef(feature, f1)
				log = append(log, zz15Record(s, log, zz15Entry{kind: 0, ref: feature, target: f1}))
			default:
				if len(log) == len(common) {
					return -1 // nothing of this suffix to revoke yet
				}
				t := len(common) + verif.Concrete(verif.Choice(p+".target", len(log)-len(common)))
				log = append(log, zz15Record(s, log, zz15Entry{kind: 1, targets: []int{t}, skip: true}))
			}
		}
		return n
	}
	mode := verif.Concrete(verif.Choice("mode", 3)) // 0 remote ahead, 1 local ahead, 2 both (diverged logs)
	nr, nl := 0, 0
	if mode != 1 {
		nr = suffix("r", remote, verif.Concrete(verif.IntRange("nremote", 1, verif.Bound("suffix", 2, 3))))
	}
	if mode != 0 {
		// local recording moves the local references as gittuf users do
		if !local.HasObject(f0) || local.Ref(feature) == nil {
			local.SetRef(feature, f0)
		}
		nl = suffix("l", local, verif.Concrete(verif.IntRange("nlocal", 1, verif.Bound("suffix", 2, 3))))
	}
	if nr < 0 || nl < 0 {
		return
	}
	// state of the local main branch relative to what the remote records
	if mode == 0 {
		switch verif.Concrete(verif.Choice("local.main", 4)) {
		case 1:
			local.SetRef(main, c1) // possibly equal to, behind or ahead of the remote's entry
		case 2:
			local.SetRef(main, c2)
		case 3:
			local.SetRef(main, l1) // diverged from everything the remote records after c0
		}
	}
	overwrite := verif.ConcreteBool(verif.Bool("overwrite"))

	repoModel := gitinterface.ZZNewModelRepo(local)
	gitinterface.ZZAddModelRemote(repoModel, "origin", remote)
	repo := &Repository{r: repoModel}
	beforeLocal, beforeRemote := zz15RefsOf(local), zz15RefsOf(remote)
	wantRemote := zz15LatestUnskipped(remote, nr)
	wantLocal := zz15LatestUnskipped(local, nl)
	remoteRSL := remote.Ref(rsl.Ref)

	diverged, err := repo.sync("origin", overwrite)
	afterLocal, afterRemote := zz15RefsOf(local), zz15RefsOf(remote)
	delete(afterLocal, rsl.RemoteTrackerRef("origin"))

	if err != nil {
		verif.Reach("refused")
		changed := false
		for n, v := range afterLocal {
			if beforeLocal[n] != v {
				changed = true
			}
		}
		verif.Assert(!changed && len(afterLocal) == len(beforeLocal), "refused-sync-changes-no-local-reference")
		verif.Assert(len(diverged) > 0, "refusal-names-the-diverged-references")
		return
	}
	verif.Reach("synced")
	switch mode {
	case 1:
		verif.Reach("pushed")
		verif.Assert(afterRemote[rsl.Ref] == afterLocal[rsl.Ref], "push:remote-log-is-the-local-log")
		for ref := range wantLocal {
			verif.Assert(afterRemote[ref] == afterLocal[ref], "push:references-named-by-unskipped-local-entries-are-published-with-the-log")
		}
		for n, v := range afterLocal {
			verif.Assert(beforeLocal[n] == v, "push:no-local-reference-moves")
		}
	default:
		verif.Reach("pulled")
		verif.Assert(afterLocal[rsl.Ref] == remoteRSL.String(), "pull:local-log-is-the-remote-log")
		for n, v := range afterRemote {
			verif.Assert(beforeRemote[n] == v, "pull:no-remote-reference-moves")
		}
		for n, v := range afterLocal {
			if n == rsl.Ref || beforeLocal[n] == v {
				continue
			}
			// a reference moved: only to what its latest unskipped remote entry records
			want, has := wantRemote[n]
			verif.Assert(has && want.String() == v, "pull:a-local-reference-moves-only-to-its-latest-unskipped-remote-entry")
			if !overwrite {
				old, _ := githash.NewHash(beforeLocal[n])
				nw, _ := githash.NewHash(v)
				verif.Assert(local.IsAncestor(nw, old), "pull:without-overwrite-a-reference-only-moves-forward")
			}
		}
		// a reference that is merely behind its latest unskipped remote entry is brought up to it
		for ref, want := range wantRemote {
			oldS, had := beforeLocal[ref]
			if !had {
				continue
			}
			old, _ := githash.NewHash(oldS)
			if local.IsAncestor(want, old) {
				verif.Assert(afterLocal[ref] == want.String(), "pull:a-reference-that-is-behind-is-fast-forwarded")
			}
		}
	}
}
