package policy

// C13 harness (rule-name uniqueness through the repository API): a policy
// state loaded from the repository knows every rule name of every rule file,
// and a state in which two rules share a name does not load.

import (
	verif "github.com/gittuf/gittuf/internal/zzverif"
)

func HarnessC13RuleNames() {
	w := zzNewWorld()
	spec := zzBasePolicy([]int{0, 1}, nil)
	// optional file rule, before or after the delegating rule
	switch verif.Concrete(verif.Choice("filerule", 3)) {
	case 1:
		spec.rules = append([]zzRuleSpec{{name: "protect-file", pattern: "file:secret", keys: []int{0}, threshold: 1}}, spec.rules...)
	case 2:
		spec.rules = append(spec.rules, zzRuleSpec{name: "protect-file", pattern: "file:secret", keys: []int{0}, threshold: 1})
	}
	// a second delegated rule file
	spec.rules = append(spec.rules, zzRuleSpec{name: "docs-team", pattern: "git:refs/heads/docs", keys: []int{1}, threshold: 1})
	spec.delegated["docs-team"] = []int{1}
	innerName := verif.OneOf("docs.inner.name", "docs-inner", "release-inner", "protect-main", "docs-team")
	spec.rules = append(spec.rules, zzRuleSpec{name: innerName, pattern: "git:refs/heads/docs", keys: []int{3}, threshold: 1, file: "docs-team"})
	duplicate := innerName != "docs-inner"

	state := w.zzBuildState(spec, []int{0}, []int{0})
	w.S.Signer = 0
	zzMust(state.Commit(w.S, "policy", true, true))
	loaded, err := LoadStateFromCommit(w.S, w.S.Ref(PolicyStagingRef))
	verif.Assert((err != nil) == duplicate, "state-with-duplicate-rule-names-does-not-load")
	if err != nil {
		verif.Reach("duplicate-refused")
		return
	}
	verif.Reach("loaded")
	for _, r := range spec.rules {
		verif.Assert(loaded.HasRuleName(r.name), "every-rule-name-of-every-rule-file-is-known")
	}
	verif.Assert(!loaded.HasRuleName("no-such-rule"), "unknown-name-is-unknown")
}
