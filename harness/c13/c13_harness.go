package migrations

// C13 harnesses: policy metadata stays well formed under edits and migration.
//
// One inductive step per mutator: the pre-state is a well-formed rule file /
// root of trust built directly (not through the mutators), one mutator is
// called with arbitrary arguments, and the invariant must hold afterwards, or
// the call must fail leaving the metadata unchanged.

import (
	"sort"
	"strconv"
	"strings"

	"github.com/gittuf/gittuf/internal/common/set"
	"github.com/gittuf/gittuf/internal/tuf"
	tufv01 "github.com/gittuf/gittuf/internal/tuf/v01"
	tufv02 "github.com/gittuf/gittuf/internal/tuf/v02"
	verif "github.com/gittuf/gittuf/internal/zzverif"
)

// principal ids of equal length so that a choice among them stays symbolic
var zz13IDs = []string{"k0", "k1", "k2", "kx"} // kx is never defined

func zz13Key(id string) *tufv01.Key {
	k := &tufv01.Key{}
	k.KeyID = id
	k.KeyType = "ssh"
	k.Scheme = "ssh"
	return k
}

type zz13Rule struct {
	name        string
	ids         []string
	threshold   int
	terminating bool
}

// zz13Targets builds a well-formed rule file of the given schema version.
func zz13Targets(version int, rules []zz13Rule) tuf.TargetsMetadata {
	if version == 1 {
		t := tufv01.NewTargetsMetadata()
		t.Delegations.Keys = map[string]*tufv01.Key{}
		for _, id := range zz13IDs[:3] {
			t.Delegations.Keys[id] = zz13Key(id)
		}
		var roles []*tufv01.Delegation
		for _, r := range rules {
			roles = append(roles, &tufv01.Delegation{Name: r.name, Paths: []string{"git:refs/heads/" + r.name}, Terminating: r.terminating,
				Role: tufv01.Role{KeyIDs: set.NewSetFromItems(r.ids...), Threshold: r.threshold}})
		}
		roles = append(roles, tufv01.AllowRule())
		t.Delegations.Roles = roles
		return t
	}
	t := tufv02.NewTargetsMetadata()
	t.Delegations.Principals = map[string]tuf.Principal{}
	for _, id := range zz13IDs[:3] {
		t.Delegations.Principals[id] = zz13Key(id)
	}
	var roles []*tufv02.Delegation
	for _, r := range rules {
		roles = append(roles, &tufv02.Delegation{Name: r.name, Paths: []string{"git:refs/heads/" + r.name}, Terminating: r.terminating,
			Role: tufv02.Role{PrincipalIDs: set.NewSetFromItems(r.ids...), Threshold: r.threshold}})
	}
	roles = append(roles, tufv02.AllowRule())
	t.Delegations.Roles = roles
	return t
}

// zz13Snapshot renders everything observable about a rule file.
func zz13Snapshot(t tuf.TargetsMetadata) string {
	var sb strings.Builder
	var pids []string
	for id := range t.GetPrincipals() {
		pids = append(pids, id)
	}
	sort.Strings(pids)
	sb.WriteString("principals=" + strings.Join(pids, ",") + ";")
	for _, r := range t.GetRules() {
		var ids []string
		if set := r.GetPrincipalIDs(); set != nil {
			ids = set.Contents()
		}
		sort.Strings(ids)
		sb.WriteString(r.ID() + "[" + strings.Join(ids, ",") + "|" + strconv.Itoa(r.GetThreshold()) + "|" + strings.Join(r.GetProtectedNamespaces(), ",") + "|" + strconv.FormatBool(r.IsLastTrustedInRuleFile()) + "];")
	}
	return sb.String()
}

// zz13TargetsInvariant asserts the well-formedness clauses of the property.
func zz13TargetsInvariant(t tuf.TargetsMetadata, label string) {
	rules := t.GetRules()
	verif.Assert(len(rules) >= 1, label+":has-rules")
	if len(rules) == 0 {
		return
	}
	verif.Assert(rules[len(rules)-1].ID() == tuf.AllowRuleName, label+":allow-rule-last")
	principals := t.GetPrincipals()
	for i, r := range rules {
		if i == len(rules)-1 {
			break
		}
		verif.Assert(r.ID() != tuf.AllowRuleName, label+":allow-rule-only-last")
		verif.Assert(!strings.HasPrefix(r.ID(), tuf.GittufPrefix), label+":no-reserved-prefix")
		th := r.GetThreshold()
		ids := r.GetPrincipalIDs()
		verif.Assert(th >= 1, label+":threshold-at-least-1")
		verif.Assert(ids != nil && th <= ids.Len(), label+":threshold-can-be-met")
		if ids != nil {
			for _, id := range ids.Contents() {
				_, defined := principals[id]
				verif.Assert(defined, label+":principal-defined")
			}
		}
	}
}

func zz13PreRules() []zz13Rule {
	var rules []zz13Rule
	n := verif.Concrete(verif.IntRange("pre.nrules", 0, 2))
	if n >= 1 {
		rules = append(rules, zz13Rule{name: "rule-a", ids: []string{"k0", "k1"}, threshold: verif.IntRange("pre.a.threshold", 1, 2), terminating: verif.Bool("pre.a.term")})
	}
	if n >= 2 {
		rules = append(rules, zz13Rule{name: "rule-b", ids: []string{"k2"}, threshold: 1})
	}
	return rules
}

var zz13RuleNames = []string{"rule-a", "rule-b", "rule-c", tuf.AllowRuleName, "gittuf-x"}

func zz13IDList(name string) []string {
	n := verif.Concrete(verif.IntRange(name+".n", 0, verif.Bound("ids", 3, 3)))
	var ids []string
	for i := 0; i < n; i++ {
		ids = append(ids, verif.PickStr(verif.Choice(name+"."+strconv.Itoa(i), len(zz13IDs)), zz13IDs...))
	}
	return ids
}

func zz13TargetsStep(version int) {
	t := zz13Targets(version, zz13PreRules())
	zz13TargetsInvariant(t, "pre")
	before := zz13Snapshot(t)
	var err error
	switch verif.Concrete(verif.Choice("mutator", 6)) {
	case 0:
		err = t.AddRule(verif.OneOf("name", zz13RuleNames...), zz13IDList("ids"), []string{"git:refs/heads/x"}, verif.Int("threshold"))
	case 1:
		err = t.UpdateRule(verif.OneOf("name", zz13RuleNames...), zz13IDList("ids"), []string{"git:refs/heads/y"}, verif.Int("threshold"))
	case 2:
		err = t.RemoveRule(verif.OneOf("name", zz13RuleNames...))
	case 3:
		n := verif.Concrete(verif.IntRange("order.n", 0, 3))
		var names []string
		for i := 0; i < n; i++ {
			names = append(names, verif.OneOf("order."+strconv.Itoa(i), zz13RuleNames[:4]...))
		}
		err = t.ReorderRules(names)
	case 4:
		err = t.RemovePrincipal(verif.OneOf("pid", "k0", "k2", "kx", ""))
	default:
		err = t.AddPrincipal(zz13Key(verif.OneOf("pid", "k0", "k9")))
	}
	if err != nil {
		verif.Reach("refused")
		verif.Assert(zz13Snapshot(t) == before, "refused-edit-left-metadata-unchanged")
		return
	}
	verif.Reach("accepted")
	zz13TargetsInvariant(t, "post")
}

func HarnessC13TargetsV02() { zz13TargetsStep(2) }
func HarnessC13TargetsV01() { zz13TargetsStep(1) }

// ---------------------------------------------------------------------------
// root of trust

func zz13Root(version int) tuf.RootMetadata {
	rootIDs := []string{"k0"}
	if verif.Bool("pre.root.k1") {
		rootIDs = append(rootIDs, "k1")
	}
	if verif.Bool("pre.root.k2") {
		rootIDs = append(rootIDs, "k2")
	}
	rootTh := verif.IntRange("pre.root.threshold", 1, 3)
	verif.Assume(rootTh <= len(rootIDs))
	hasTargets := verif.Bool("pre.targets")
	targetsIDs := []string{"k1"}
	if verif.Bool("pre.targets.k2") {
		targetsIDs = append(targetsIDs, "k2")
	}
	targetsTh := verif.IntRange("pre.targets.threshold", 1, 2)
	verif.Assume(targetsTh <= len(targetsIDs))
	if version == 1 {
		r := tufv01.NewRootMetadata()
		r.Keys = map[string]*tufv01.Key{}
		for _, id := range zz13IDs[:3] {
			r.Keys[id] = zz13Key(id)
		}
		r.Roles = map[string]tufv01.Role{tuf.RootRoleName: {KeyIDs: set.NewSetFromItems(rootIDs...), Threshold: rootTh}}
		if hasTargets {
			r.Roles[tuf.TargetsRoleName] = tufv01.Role{KeyIDs: set.NewSetFromItems(targetsIDs...), Threshold: targetsTh}
		}
		return r
	}
	r := tufv02.NewRootMetadata()
	r.Principals = map[string]tuf.Principal{}
	for _, id := range zz13IDs[:3] {
		r.Principals[id] = zz13Key(id)
	}
	r.Roles = map[string]tufv02.Role{tuf.RootRoleName: {PrincipalIDs: set.NewSetFromItems(rootIDs...), Threshold: rootTh}}
	if hasTargets {
		r.Roles[tuf.TargetsRoleName] = tufv02.Role{PrincipalIDs: set.NewSetFromItems(targetsIDs...), Threshold: targetsTh}
	}
	return r
}

func zz13RootSnapshot(r tuf.RootMetadata) string {
	var sb strings.Builder
	var pids []string
	for id := range r.GetPrincipals() {
		pids = append(pids, id)
	}
	sort.Strings(pids)
	sb.WriteString("principals=" + strings.Join(pids, ",") + ";")
	if ps, err := r.GetRootPrincipals(); err == nil {
		var ids []string
		for _, p := range ps {
			if p != nil {
				ids = append(ids, p.ID())
			} else {
				ids = append(ids, "<undefined>")
			}
		}
		sort.Strings(ids)
		th, _ := r.GetRootThreshold()
		sb.WriteString("root[" + strings.Join(ids, ",") + "|" + strconv.Itoa(th) + "];")
	}
	if ps, err := r.GetPrimaryRuleFilePrincipals(); err == nil {
		var ids []string
		for _, p := range ps {
			if p != nil {
				ids = append(ids, p.ID())
			} else {
				ids = append(ids, "<undefined>")
			}
		}
		sort.Strings(ids)
		th, _ := r.GetPrimaryRuleFileThreshold()
		sb.WriteString("targets[" + strings.Join(ids, ",") + "|" + strconv.Itoa(th) + "];")
	}
	for _, g := range r.GetGlobalRules() {
		sb.WriteString("global:" + g.GetName() + ";")
	}
	return sb.String()
}

// HarnessC13RootMigration: a legacy root with any combination of controller /
// network repositories (controller flag on, off, or switched off again), a
// propagation directive and a GitHub app (trusted or not) answers the
// corresponding queries identically after migration.
func HarnessC13RootMigration() {
	oldRoot := zz13Root(1).(*tufv01.RootMetadata)
	// multi-repository settings, propagation directives, the GitHub app
	if verif.Bool("with.controllerrepo") {
		if err := oldRoot.AddControllerRepository("ctrl", "https://example.com/ctrl", []tuf.Principal{zz13Key("k2")}); err != nil {
			panic(err)
		}
	}
	if verif.Bool("is.controller") {
		if err := oldRoot.EnableController(); err != nil {
			panic(err)
		}
		if verif.Bool("with.networkrepo") {
			if err := oldRoot.AddNetworkRepository("net", "https://example.com/net", []tuf.Principal{zz13Key("k1")}); err != nil {
				panic(err)
			}
		}
		if verif.Bool("controller.disabled.again") {
			if err := oldRoot.DisableController(); err != nil {
				panic(err)
			}
		}
	}
	if verif.Bool("with.directive") {
		if err := oldRoot.AddPropagationDirective(tufv01.NewPropagationDirective("d", "https://example.com/up", "refs/heads/main", "", "refs/heads/main", "vendor")); err != nil {
			panic(err)
		}
	}
	if verif.Bool("with.githubapp") {
		if err := oldRoot.AddGitHubAppPrincipal(tuf.GitHubAppRoleName, zz13Key("k3")); err != nil {
			panic(err)
		}
		if verif.Bool("githubapp.trusted") {
			oldRoot.EnableGitHubAppApprovals(tuf.GitHubAppRoleName)
		}
	}
	newRoot := MigrateRootMetadataV01ToV02(oldRoot)
	verif.Assert(zz13RootSnapshot(oldRoot) == zz13RootSnapshot(newRoot), "root-queries-identical")
	verif.Assert(zz13RootExtras(oldRoot) == zz13RootExtras(newRoot), "root-multi-repository-directive-and-app-queries-identical")
	verif.Reach("migrated")
}

// zz13RootExtras renders the answers to the multi-repository, propagation
// directive and GitHub app queries of a root.
func zz13RootExtras(r tuf.RootMetadata) string {
	var sb strings.Builder
	sb.WriteString("location=" + r.GetRepositoryLocation() + ";controller=" + strconv.FormatBool(r.IsController()) + ";")
	other := func(kind string, repos []tuf.OtherRepository) {
		for _, o := range repos {
			sb.WriteString(kind + ":" + o.GetName() + "@" + o.GetLocation() + "[")
			for _, p := range o.GetInitialRootPrincipals() {
				sb.WriteString(p.ID() + ",")
			}
			sb.WriteString("];")
		}
	}
	other("controller", r.GetControllerRepositories())
	other("network", r.GetNetworkRepositories())
	for _, d := range r.GetPropagationDirectives() {
		sb.WriteString("directive:" + d.GetName() + "|" + d.GetUpstreamRepository() + "|" + d.GetUpstreamReference() + "|" + d.GetUpstreamPath() + "|" + d.GetDownstreamReference() + "|" + d.GetDownstreamPath() + ";")
	}
	if apps, err := r.GetGitHubAppEntries(); err == nil {
		var names []string
		for n := range apps {
			names = append(names, n)
		}
		sort.Strings(names)
		for _, n := range names {
			a := apps[n]
			sb.WriteString("app:" + n + "|" + strings.Join(a.GetPrincipalIDs(), ",") + "|" + strconv.Itoa(a.GetThreshold()) + "|" + strconv.FormatBool(a.IsTrusted()) + ";")
		}
	} else {
		sb.WriteString("apps-error;")
	}
	return sb.String()
}

func zz13RootInvariant(r tuf.RootMetadata, label string) {
	ps, err := r.GetRootPrincipals()
	verif.Assert(err == nil, label+":root-role-present")
	if err == nil {
		th, _ := r.GetRootThreshold()
		verif.Assert(th >= 1, label+":root-threshold-at-least-1")
		verif.Assert(th <= len(ps), label+":root-threshold-can-be-met")
		for _, p := range ps {
			verif.Assert(p != nil, label+":root-principal-defined")
		}
	}
	if tps, err := r.GetPrimaryRuleFilePrincipals(); err == nil {
		th, _ := r.GetPrimaryRuleFileThreshold()
		verif.Assert(th >= 1, label+":targets-threshold-at-least-1")
		verif.Assert(th <= len(tps), label+":targets-threshold-can-be-met")
		for _, p := range tps {
			verif.Assert(p != nil, label+":targets-principal-defined")
		}
	}
	// global rules: unique names, threshold rules with threshold >= 1
	seen := map[string]bool{}
	for _, g := range r.GetGlobalRules() {
		verif.Assert(!seen[g.GetName()], label+":global-rule-names-unique")
		seen[g.GetName()] = true
		if tg, ok := g.(tuf.GlobalRuleThreshold); ok {
			verif.Assert(tg.GetThreshold() >= 1, label+":global-threshold-at-least-1")
		}
	}
}

func zz13RootStep(version int) {
	r := zz13Root(version)
	zz13RootInvariant(r, "pre")
	before := zz13RootSnapshot(r)
	var err error
	pid := verif.PickStr(verif.Choice("pid", len(zz13IDs)), zz13IDs...)
	switch verif.Concrete(verif.Choice("mutator", 8)) {
	case 0:
		err = r.AddRootPrincipal(zz13Key(verif.ConcreteString(pid)))
	case 1:
		err = r.DeleteRootPrincipal(pid)
	case 2:
		err = r.UpdateRootThreshold(verif.Int("threshold"))
	case 3:
		err = r.AddPrimaryRuleFilePrincipal(zz13Key(verif.ConcreteString(pid)))
	case 4:
		err = r.DeletePrimaryRuleFilePrincipal(pid)
	case 5:
		err = r.UpdatePrimaryRuleFileThreshold(verif.Int("threshold"))
	case 6:
		// two global rule edits in a row (add, then add/update/delete)
		name1 := verif.OneOf("g1", "g-a", "g-b")
		err = r.AddGlobalRule(zz13GlobalThreshold(version, name1, verif.Int("g1.threshold")))
		if err == nil {
			before = zz13RootSnapshot(r)
			name2 := verif.OneOf("g2", "g-a", "g-b")
			switch verif.Concrete(verif.Choice("g2.op", 3)) {
			case 0:
				err = r.AddGlobalRule(zz13GlobalThreshold(version, name2, verif.Int("g2.threshold")))
			case 1:
				err = r.UpdateGlobalRule(zz13GlobalThreshold(version, name2, verif.Int("g2.threshold")))
			default:
				err = r.DeleteGlobalRule(name2)
			}
		}
	default:
		err = r.DeleteGlobalRule("absent")
	}
	if err != nil {
		verif.Reach("refused")
		verif.Assert(zz13RootSnapshot(r) == before, "refused-edit-left-metadata-unchanged")
		return
	}
	verif.Reach("accepted")
	zz13RootInvariant(r, "post")
}

func zz13GlobalThreshold(version int, name string, threshold int) tuf.GlobalRule {
	if version == 1 {
		return tufv01.NewGlobalRuleThreshold(name, []string{"git:refs/heads/main"}, threshold)
	}
	return tufv02.NewGlobalRuleThreshold(name, []string{"git:refs/heads/main"}, threshold)
}

func HarnessC13RootV02() { zz13RootStep(2) }
func HarnessC13RootV01() { zz13RootStep(1) }

// ---------------------------------------------------------------------------
// migration: every query answers identically before and after

func HarnessC13Migration() {
	rules := zz13PreRules()
	if verif.Bool("pre.extra") {
		rules = append(rules, zz13Rule{name: "rule-c", ids: zz13IDs[:verif.Concrete(verif.IntRange("pre.c.nids", 1, 3))], threshold: 1, terminating: true})
	}
	old := zz13Targets(1, rules).(*tufv01.TargetsMetadata)
	old.Version = verif.Uint64("version")
	old.Expires = "2030-01-01"
	migrated := MigrateTargetsMetadataV01ToV02(old)
	verif.Assert(zz13Snapshot(old) == zz13Snapshot(migrated), "targets-queries-identical")
	verif.Assert(old.GetVersion() == migrated.GetVersion(), "targets-version-kept")
	for _, path := range []string{"git:refs/heads/rule-a", "git:refs/heads/rule-c", "git:refs/heads/other", "file:x"} {
		or, mr := old.GetRules(), migrated.GetRules()
		if len(or) == len(mr) {
			for i := range or {
				verif.Assert(or[i].Matches(path) == mr[i].Matches(path), "targets-matches-identical")
			}
		}
	}
	zz13TargetsInvariant(migrated, "migrated")

	oldRoot := zz13Root(1).(*tufv01.RootMetadata)
	oldRoot.Version = verif.Uint64("rootversion")
	if verif.Bool("withglobal") {
		if err := oldRoot.AddGlobalRule(tufv01.NewGlobalRuleThreshold("g", []string{"git:refs/heads/main"}, 2)); err != nil {
			panic(err)
		}
		bf, err := tufv01.NewGlobalRuleBlockForcePushes("f", []string{"git:refs/heads/main"})
		if err != nil {
			panic(err)
		}
		if err := oldRoot.AddGlobalRule(bf); err != nil {
			panic(err)
		}
	}
	newRoot := MigrateRootMetadataV01ToV02(oldRoot)
	verif.Assert(zz13RootSnapshot(oldRoot) == zz13RootSnapshot(newRoot), "root-queries-identical")
	verif.Assert(oldRoot.GetVersion() == newRoot.GetVersion(), "root-version-kept")
	zz13RootInvariant(newRoot, "migrated-root")
	verif.Reach("migrated")
}
