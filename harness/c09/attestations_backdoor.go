package attestations

import "github.com/gittuf/gittuf/pkg/githash"

// ZZSetRawAuthorization stores an authorization blob at an arbitrary path of
// the reference-authorizations tree (what a writer bypassing gittuf's API,
// or an attacker with write access to the attestations ref, can do).
func (a *Attestations) ZZSetRawAuthorization(path string, blobID githash.Hash) {
	if a.referenceAuthorizations == nil {
		a.referenceAuthorizations = map[string]githash.Hash{}
	}
	a.referenceAuthorizations[path] = blobID
}

// ZZSetRawCodeReviewApproval stores a code-review approval blob at an
// arbitrary path of the code-review approvals tree.
func (a *Attestations) ZZSetRawCodeReviewApproval(path string, blobID githash.Hash) {
	if a.codeReviewApprovalAttestations == nil {
		a.codeReviewApprovalAttestations = map[string]githash.Hash{}
	}
	a.codeReviewApprovalAttestations[path] = blobID
}
