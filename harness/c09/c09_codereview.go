package policy

// C09 (code-review half): an approval recorded by a trusted code-review app
// counts only for the exact change it names, only if signed by the app's key,
// only for approvers that map to principals trusted for the rule, once per
// principal, and not for dismissed approvers.

import (
	"encoding/base64"
	"encoding/json"
	"path"
	"strconv"

	"github.com/gittuf/gittuf/internal/attestations"
	authorizationsv01 "github.com/gittuf/gittuf/internal/attestations/authorizations/v01"
	githubv01 "github.com/gittuf/gittuf/internal/attestations/github/v01"
	"github.com/gittuf/gittuf/internal/common/set"
	"github.com/gittuf/gittuf/internal/signerverifier/dsse"
	sslibdsse "github.com/gittuf/gittuf/internal/third_party/go-securesystemslib/dsse"
	tufv02 "github.com/gittuf/gittuf/internal/tuf/v02"
	"github.com/gittuf/gittuf/internal/zzsig"
	verif "github.com/gittuf/gittuf/internal/zzverif"
	"github.com/gittuf/gittuf/pkg/githash"
	"github.com/gittuf/gittuf/pkg/rsl"
	ita "github.com/in-toto/attestation/go/v1"
)

const zz9App = "https://github.com/apps/reviewer"

// zz9Statement has exactly the shape verification decodes approvals into.
type zz9Statement struct {
	Type          string                                    `json:"_type"`
	Subject       []*ita.ResourceDescriptor                 `json:"subject"`
	PredicateType string                                    `json:"predicateType"`
	Predicate     *githubv01.PullRequestApprovalAttestation `json:"predicate"`
}

func zz9Person(i int) *tufv02.Person {
	return &tufv02.Person{
		PersonID:             "person" + strconv.Itoa(i),
		PublicKeys:           map[string]*tufv02.Key{zzKeyIDs[i]: zzKey(i)},
		AssociatedIdentities: map[string]string{zz9App: "user" + strconv.Itoa(i)},
	}
}

func HarnessC09CodeReview() {
	w := zzNewWorld()
	threshold := verif.Concrete(verif.IntRange("threshold", 2, verif.Bound("maxthreshold", 2, 3)))
	appTrusted := verif.ConcreteBool(verif.Bool("app.trusted"))

	// policy: root and rule file by key0; the app's key is key3; main is
	// protected by a rule trusting three persons (key i, identity "user<i>")
	root := tufv02.NewRootMetadata()
	zzMust(root.AddRootPrincipal(zzKey(0)))
	zzMust(root.AddPrimaryRuleFilePrincipal(zzKey(0)))
	zzMust(root.AddGitHubAppPrincipal(zz9App, zzKey(3)))
	if appTrusted {
		root.EnableGitHubAppApprovals(zz9App)
	}
	rootEnv, err := dsse.CreateEnvelope(root)
	zzMust(err)
	zzSignEnv(rootEnv, 0)
	targets := tufv02.NewTargetsMetadata()
	var ids []string
	for i := 0; i < 3; i++ {
		zzMust(targets.AddPrincipal(zz9Person(i)))
		ids = append(ids, "person"+strconv.Itoa(i))
	}
	zzMust(targets.AddRule("protect-main", ids, []string{"git:" + zzMain}, threshold))
	tEnv, err := dsse.CreateEnvelope(targets)
	zzMust(err)
	zzSignEnv(tEnv, 0)
	state := &State{Metadata: &StateMetadata{RootEnvelope: rootEnv, TargetsEnvelope: tEnv}}
	zzMust(w.zzStageAndApply(&zzPolicySpec{}, state, 0))

	// the change under test: the first push to main
	tree := w.zzTree(1)
	change := [3]string{zzMain, githash.ZeroHash.String(), tree.String()}
	other := w.zzTree(2).String()

	// the approval: what its statement names, where it is stored, who approved,
	// who dismissed, whether the app's signature is genuine
	stmt, at := change, change
	switch verif.Concrete(verif.Choice("approval.statement", 4)) {
	case 1:
		stmt[0] = zzFeature
	case 2:
		stmt[1] = w.zzTree(9).String()
	case 3:
		stmt[2] = other
	}
	if verif.ConcreteBool(verif.Bool("approval.elsewhere")) {
		at[2] = other
	}
	users := []string{"user0", "user1", "user2", "stranger"}
	var approvers, dismissed []string
	approved := make([]bool, 4)
	dism := make([]bool, 4)
	for k, u := range users {
		if k == 2 && verif.Bound("allusers", 0, 1) == 0 {
			continue // quick tier: user2 neither approves nor is dismissed
		}
		if verif.ConcreteBool(verif.Bool("approver." + u)) {
			approvers = append(approvers, u)
			approved[k] = true
		}
		// (an approver who was dismissed and approved again is listed in both
		// sets by gittuf's own recorder and counts; so only users that are
		// not current approvers are listed as dismissed here)
		if !approved[k] && verif.ConcreteBool(verif.Bool("dismissed."+u)) {
			dismissed = append(dismissed, u)
			dism[k] = true
		}
	}
	if len(approvers) == 0 && len(dismissed) == 0 {
		return
	}
	statement := &zz9Statement{
		Type:          ita.StatementTypeUri,
		Subject:       []*ita.ResourceDescriptor{{Digest: map[string]string{"gitTree": stmt[2]}}},
		PredicateType: githubv01.PullRequestApprovalPredicateType,
		Predicate: &githubv01.PullRequestApprovalAttestation{
			ReferenceAuthorization: &authorizationsv01.ReferenceAuthorization{TargetRef: stmt[0], FromRevisionID: stmt[1], TargetTreeID: stmt[2]},
			Approvers:              set.NewSetFromItems(approvers...),
			DismissedApprovers:     set.NewSetFromItems(dismissed...),
		},
	}
	env, err := dsse.CreateEnvelope(statement)
	zzMust(err)
	payload, err := env.DecodeB64Payload()
	zzMust(err)
	pae := sslibdsse.PAE(env.PayloadType, payload)
	forged := sslibdsse.PAE(env.PayloadType, append([]byte("x"), payload[1:]...))
	appSigned := verif.Bool("approval.appsigned")
	good := string(zzsig.Make(zzKeyIDs[3], pae))
	bad := string(zzsig.Make(zzKeyIDs[3], forged))
	env.Signatures = append(env.Signatures, sslibdsse.Signature{KeyID: zzKeyIDs[3], Sig: base64.StdEncoding.EncodeToString([]byte(verif.PickStr(verif.B2I(appSigned), bad, good)))})
	envBytes, err := json.Marshal(env)
	zzMust(err)
	cur, err := attestations.LoadCurrentAttestations(w.S)
	zzMust(err)
	blobPath := path.Join(attestations.GitHubPullRequestApprovalAttestationPath(at[0], at[1], at[2]), base64.URLEncoding.EncodeToString([]byte(zz9App)))
	cur.ZZSetRawCodeReviewApproval(blobPath, w.S.RawBlob(envBytes))
	w.S.Signer = 0
	zzMust(cur.Commit(w.S, "approval", true, true))

	signer := zzSigner("pusher")
	w.zzPush(zzMain, signer, 1, false)
	_ = rsl.Ref

	_, verr := zzVerifyFull(w, zzMain)

	// reference: principals counted for this exact change
	usable := verif.And(appTrusted, verif.And(appSigned, at == change && stmt == change))
	counted := 0
	for k := 0; k < 3; k++ {
		has := verif.And(signer >= 0, signer == k)
		has = verif.Or(has, verif.And(usable, approved[k] && !dism[k]))
		counted += verif.B2I(has)
	}
	if verr == nil {
		verif.Reach("accepted")
		verif.Assert(counted >= threshold, "accepted-implies-threshold-of-principals-for-this-exact-change")
	} else {
		verif.Reach("rejected")
		verif.Observe("error", verr.Error())
		verif.Assert(counted < threshold, "enough-exact-approvals-verify")
	}
}
