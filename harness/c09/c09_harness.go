package policy

// C09 harness: approvals count only for the exact change named, once per
// principal (reference authorizations; code-review approvals are outside
// this check, see DESIGN.md).

import (
	"encoding/json"
	"strconv"

	"github.com/gittuf/gittuf/internal/attestations"
	"github.com/gittuf/gittuf/internal/signerverifier/dsse"
	zzmem "github.com/gittuf/gittuf/internal/zzmem"
	"github.com/gittuf/gittuf/internal/zzsig"
	verif "github.com/gittuf/gittuf/internal/zzverif"
	"github.com/gittuf/gittuf/pkg/githash"
	"github.com/gittuf/gittuf/pkg/rsl"

	sslibdsse "github.com/gittuf/gittuf/internal/third_party/go-securesystemslib/dsse"
	"encoding/base64"
)

// zz9Authorization describes one stored authorization.
type zz9Authorization struct {
	stmt   [3]string // what the signed statement names: ref, from, to
	at     [3]string // where it is stored
	signed []bool    // per key 0..3: does a valid signature by that key exist (symbolic)
}

// zzAuthorize writes an authorization whose statement names stmt at the path
// for at, with one signature slot per key whose validity is symbolic, and
// commits the attestations (recorded in the RSL).
func (w *zzWorld) zzAuthorize(name string, stmt, at [3]string) *zz9Authorization {
	a := &zz9Authorization{stmt: stmt, at: at}
	statement, err := attestations.NewReferenceAuthorizationForCommit(stmt[0], stmt[1], stmt[2])
	zzMust(err)
	env, err := dsse.CreateEnvelope(statement)
	zzMust(err)
	payload, err := env.DecodeB64Payload()
	zzMust(err)
	pae := sslibdsse.PAE(env.PayloadType, payload)
	other := sslibdsse.PAE(env.PayloadType, append([]byte("x"), payload[1:]...))
	for k := 0; k < 4; k++ {
		valid := verif.Bool(name + ".sig" + strconv.Itoa(k))
		a.signed = append(a.signed, valid)
		good := string(zzsig.Make(zzKeyIDs[k], pae))
		bad := string(zzsig.Make(zzKeyIDs[k], other))
		env.Signatures = append(env.Signatures, sslibdsse.Signature{KeyID: zzKeyIDs[k], Sig: base64.StdEncoding.EncodeToString([]byte(verif.PickStr(verif.B2I(valid), bad, good)))})
	}
	cur, err := attestations.LoadCurrentAttestations(w.S)
	zzMust(err)
	if stmt == at {
		zzMust(cur.SetReferenceAuthorization(w.S, env, at[0], at[1], at[2]))
	} else {
		// the API refuses a statement that does not match its path: store it directly
		envBytes, err := json.Marshal(env)
		zzMust(err)
		cur.ZZSetRawAuthorization(attestations.ReferenceAuthorizationPath(at[0], at[1], at[2]), w.S.RawBlob(envBytes))
	}
	w.S.Signer = 0
	zzMust(cur.Commit(w.S, "authorize", true, true))
	w.hist = append(w.hist, zzEvent{kind: "attestation", ref: attestations.Ref, policy: len(w.policies) - 1, entryID: w.S.Ref(rsl.Ref)})
	return a
}

// zzAuthorizeConcrete records an exact authorization signed by the listed keys.
func (w *zzWorld) zzAuthorizeConcrete(change [3]string, signers []int) error {
	statement, err := attestations.NewReferenceAuthorizationForCommit(change[0], change[1], change[2])
	zzMust(err)
	env, err := dsse.CreateEnvelope(statement)
	zzMust(err)
	zzSignEnv(env, signers...)
	cur, err := attestations.LoadCurrentAttestations(w.S)
	zzMust(err)
	zzMust(cur.SetReferenceAuthorization(w.S, env, change[0], change[1], change[2]))
	w.S.Signer = 0
	zzMust(cur.Commit(w.S, "authorize", true, true))
	w.hist = append(w.hist, zzEvent{kind: "attestation", ref: attestations.Ref, policy: len(w.policies) - 1, entryID: w.S.Ref(rsl.Ref)})
	return nil
}

func HarnessC09Authorizations() {
	w := zzNewWorld()
	threshold := verif.Concrete(verif.IntRange("threshold", 2, 3))
	spec := zzBasePolicy([]int{0, 1, 2}, nil)
	spec.rules[0].threshold = threshold
	zzMust(w.zzStageAndApply(spec, w.zzBuildState(spec, []int{0}, []int{0}), 0))

	// the change under test: the first push to main
	tree := w.zzTree(1)
	change := [3]string{zzMain, githash.ZeroHash.String(), tree.String()}
	otherTree := w.zzTree(2)

	var auths []*zz9Authorization
	before := verif.ConcreteBool(verif.Bool("recorded.before"))
	n := verif.Concrete(verif.IntRange("nauthorizations", 0, verif.Bound("authorizations", 2, 2)))
	mk := func(i int) {
		p := "a" + strconv.Itoa(i)
		stmt, at := change, change
		switch verif.Concrete(verif.Choice(p+".statement", 4)) {
		case 1:
			stmt[0] = zzFeature
		case 2:
			stmt[1] = w.zzTree(9).String() // some other "from"
		case 3:
			stmt[2] = otherTree.String()
		}
		switch verif.Concrete(verif.Choice(p+".path", 3)) {
		case 1:
			at = stmt // stored where its own statement says (possibly not this change)
		case 2:
			at[2] = otherTree.String()
		}
		auths = append(auths, w.zzAuthorize(p, stmt, at))
	}
	if before {
		for i := 0; i < n; i++ {
			mk(i)
		}
	}
	signer := zzSigner("pusher")
	w.zzPush(zzMain, signer, 1, false)
	if !before {
		for i := 0; i < n; i++ {
			mk(i)
		}
	}

	// optionally a later, fully approved push, so that verification covers a
	// range of entries and meets attestation entries recorded in between
	if verif.ConcreteBool(verif.Bool("later.push")) {
		zzMust(w.zzAuthorizeConcrete([3]string{zzMain, w.tips[zzMain].String(), w.zzTree(3).String()}, []int{1, 2}))
		w.zzPush(zzMain, 0, 3, false)
	}

	_, err := zzVerifyFull(w, zzMain)

	// reference: principals counted for this change
	counted := 0
	for k := 0; k < 3; k++ { // keys 0..2 are the principals trusted for main
		has := verif.And(signer >= 0, signer == k)
		if before {
			// the authorization found for the change is the last one stored at its exact path
			var found *zz9Authorization
			for _, a := range auths {
				if a.at == change {
					found = a
				}
			}
			if found != nil && found.stmt == change {
				has = verif.Or(has, found.signed[k])
			}
		}
		counted += verif.B2I(has)
	}
	if err == nil {
		verif.Reach("accepted")
		verif.Assert(counted >= threshold, "accepted-implies-threshold-of-principals-for-this-exact-change")
	} else {
		verif.Reach("rejected")
		verif.Assert(counted < threshold, "enough-exact-approvals-verify")
	}
	_ = zzmem.Unsigned
}
