package policy

// C03 (composite recorders): staging a policy, applying it, recording an
// authorization and discarding staged changes go through the same log; after
// any sequence of them the log is one consecutively numbered chain, each
// successful operation has appended exactly the entries it stands for (one,
// naming the reference it moved) and a refused operation none.

import (
	"strconv"

	verif "github.com/gittuf/gittuf/internal/zzverif"
	"github.com/gittuf/gittuf/pkg/rsl"
)

func HarnessC03Composite() {
	w := zzNewWorld()
	spec := zzBasePolicy([]int{0, 1}, nil)
	if verif.ConcreteBool(verif.Bool("start.established")) {
		zzMust(w.zzStageAndApply(spec, w.zzBuildState(spec, []int{0}, []int{0}), 0))
		w.zzPush(zzMain, 0, 1, false)
	}
	version := uint64(1)
	n := verif.Concrete(verif.IntRange("nops", 1, verif.Bound("ops", 3, 4)))
	for i := 0; i < n; i++ {
		p := "o" + strconv.Itoa(i)
		before, ok := zz16Log(w.S)
		verif.Assert(ok, "chain-valid-before")
		if !ok {
			return
		}
		var err error
		wantRef := ""
		w.S.Signer = 0
		switch verif.Concrete(verif.Choice(p+".op", 5)) {
		case 0: // stage a successor policy (valid, or rolled back)
			version++
			next := zzBasePolicy([]int{0, 1, 2}, nil)
			next.rootVersion, next.targetsVer = version, version
			if verif.ConcreteBool(verif.Bool(p + ".rollback")) {
				next.rootVersion, next.targetsVer = 0, 0
			}
			err = w.zzBuildState(next, []int{0}, []int{0}).Commit(w.S, "stage", true, true)
			wantRef = PolicyStagingRef
		case 1:
			err = Apply(w.ctx, w.S, true)
			wantRef = PolicyRef
		case 2:
			err = zz16Attest(w, zzMain)
			wantRef = "refs/gittuf/attestations"
		case 3:
			err = Discard(w.S)
			wantRef = "" // discarding records nothing
		default:
			commit := w.S.RawCommit(zzFeature, w.zzTree(10+i), nil, "feature", -1)
			err = rsl.NewReferenceEntry(zzFeature, commit).Commit(w.S, true)
			wantRef = zzFeature
		}
		after, ok := zz16Log(w.S)
		verif.Assert(ok, "chain-valid-after")
		if !ok {
			return
		}
		prefix := len(after) >= len(before)
		if prefix {
			for k := range before {
				if before[k] != after[k] {
					prefix = false
				}
			}
		}
		verif.Assert(prefix, "earlier-log-is-a-prefix")
		if err != nil {
			verif.Reach("refused")
			verif.Assert(len(after) == len(before), "refused-operation-appends-nothing")
			continue
		}
		verif.Reach("recorded")
		if wantRef == "" {
			verif.Assert(len(after) == len(before), "discard-records-nothing")
			continue
		}
		verif.Assert(len(after) == len(before)+1 && after[len(after)-1].ref == wantRef, "operation-appends-exactly-one-entry-naming-its-reference["+wantRef+"]")
	}
}
