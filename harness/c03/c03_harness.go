package rsl

// C03 harnesses: recording keeps the RSL an append-only, consecutively
// numbered single chain.

import (
	"strconv"
	"strings"

	zzmem "github.com/gittuf/gittuf/internal/zzmem"
	verif "github.com/gittuf/gittuf/internal/zzverif"
	"github.com/gittuf/gittuf/pkg/githash"
	"github.com/gittuf/gittuf/pkg/gitinterface"
	"github.com/gittuf/gittuf/pkg/gitstore"
)

var zz3Refs = []string{
	"refs/heads/main00000000000",
	"refs/heads/feature00000000",
	"refs/gittuf/policy0000000x",
	"refs/gittuf/policy-staging",
}

// zz3Walk is the independent reader: it walks the commit graph under the RSL
// ref with its own parsing of the commit message and returns, oldest first,
// the ids and numbers; ok=false if the graph is not a single consecutively
// numbered chain of well-formed entries.
func zz3Walk(s *zzmem.Store) (ids []githash.Hash, numbers []uint64, ok bool) {
	tip := s.Ref(Ref)
	if tip == nil {
		return nil, nil, true
	}
	cur := tip
	for {
		c := s.CommitInfo(cur)
		if c == nil {
			return nil, nil, false
		}
		n, wf := zz3ParseNumber(c.Message)
		if !wf {
			return nil, nil, false
		}
		ids = append([]githash.Hash{cur}, ids...)
		numbers = append([]uint64{n}, numbers...)
		if len(c.Parents) == 0 {
			break
		}
		if len(c.Parents) != 1 {
			return nil, nil, false
		}
		cur = c.Parents[0]
	}
	// numbering: zero or more unnumbered entries, then 1, 2, 3, ...
	expect := uint64(0)
	for _, n := range numbers {
		if expect == 0 {
			if n != 0 && n != 1 {
				return nil, nil, false
			}
			expect = n
			continue
		}
		if n != expect+1 {
			return nil, nil, false
		}
		expect = n
	}
	return ids, numbers, true
}

// zz3ParseNumber: own minimal reading of an entry text: a known header, a
// blank line, and at most one "number: N" line.
func zz3ParseNumber(msg string) (uint64, bool) {
	lines := strings.Split(msg, "\n")
	if len(lines) < 3 {
		return 0, false
	}
	switch lines[0] {
	case ReferenceEntryHeader, AnnotationEntryHeader, PropagationEntryHeader:
	default:
		return 0, false
	}
	if lines[1] != "" {
		return 0, false
	}
	var n uint64
	seen := false
	for _, l := range lines[2:] {
		if l == BeginMessage {
			break
		}
		if strings.HasPrefix(l, NumberKey+": ") {
			if seen {
				return 0, false
			}
			v, err := strconv.ParseUint(l[len(NumberKey)+2:], 10, 64)
			if err != nil {
				return 0, false
			}
			n, seen = v, true
		}
	}
	return n, true
}

type zz3World struct {
	s       *zzmem.Store
	st      gitstore.Storer // what the recorders are given: s itself, or the real gitinterface.Repository over the git command model on s
	commits []githash.Hash // target commits: c0 <- c1, c2 unrelated
	blob    githash.Hash
}

func zz3NewWorld() *zz3World {
	s := zzmem.New(3)
	w := &zz3World{s: s, st: s}
	t0 := s.RawTree([]gitstore.TreeEntry{{Path: "a", ID: s.RawBlob([]byte("1")), Kind: gitstore.KindBlob}})
	t1 := s.RawTree([]gitstore.TreeEntry{{Path: "a", ID: s.RawBlob([]byte("2")), Kind: gitstore.KindBlob}})
	c0 := s.RawCommit("", t0, nil, "c0", zzmem.Unsigned)
	c1 := s.RawCommit("", t1, []githash.Hash{c0}, "c1", zzmem.Unsigned)
	c2 := s.RawCommit("", t1, nil, "c2", zzmem.Unsigned)
	w.commits = []githash.Hash{c0, c1, c2}
	w.blob = s.RawBlob([]byte("blob"))
	return w
}

// zz3Op performs operation number k and checks its effect.
func zz3Op(w *zz3World, k int, allowUnnumbered bool) (stillUnnumbered bool) {
	s := w.s
	p := "op" + strconv.Itoa(k)
	beforeIDs, beforeNumbers, okBefore := zz3Walk(s)
	verif.Assert(okBefore, "chain-valid-before")
	beforeTip := s.Ref(Ref)
	beforeCount := s.NumCommits()
	unnumberedSoFar := true
	for _, n := range beforeNumbers {
		if n != 0 {
			unnumberedSoFar = false
		}
	}

	nops := 4
	if allowUnnumbered && unnumberedSoFar {
		nops = 6
	}
	op := verif.Concrete(verif.Choice(p+".kind", nops))
	var err error
	expectRefuse := false
	appended := 1
	switch op {
	case 0, 4: // reference entry
		ref := verif.OneOf(p+".ref", "refs/heads/main", "refs/gittuf/policy")
		target := w.commits[verif.Concrete(verif.Choice(p+".target", 2))+1]
		e := NewReferenceEntry(ref, target)
		if op == 0 {
			err = e.Commit(w.st, false)
		} else {
			err = e.CommitWithoutNumber(w.st)
		}
	case 1, 5: // annotation
		var ids []githash.Hash
		nids := verif.Concrete(verif.IntRange(p+".nids", 1, 2))
		for j := 0; j < nids; j++ {
			q := p + ".id" + strconv.Itoa(j)
			what := 0
			if j == nids-1 {
				what = verif.Concrete(verif.Choice(q+".what", 4))
			}
			switch what {
			case 0: // an existing entry (if any)
				if len(beforeIDs) == 0 {
					ids = append(ids, w.commits[0])
					expectRefuse = true
				} else {
					ids = append(ids, beforeIDs[verif.Concrete(verif.Choice(q+".pos", len(beforeIDs)))])
				}
			case 1: // a commit that is not an entry
				ids = append(ids, w.commits[1])
				expectRefuse = true
			case 2: // a blob
				ids = append(ids, w.blob)
				expectRefuse = true
			default: // an id that names nothing
				h := make([]byte, 20)
				h[0] = 0x77
				ids = append(ids, githash.Hash(h))
				expectRefuse = true
			}
		}
		msg := verif.OneOf(p+".msg", "", "-----BEGIN MESSAGE-----\nnumber: 9")
		a := NewAnnotationEntry(ids, verif.Bool(p+".skip"), msg)
		if op == 1 {
			err = a.Commit(w.st, false)
		} else {
			err = a.CommitWithoutNumber(w.st)
		}
	case 2: // propagation entry
		ref := verif.OneOf(p+".ref", "refs/heads/main", "refs/gittuf/policy")
		target := w.commits[1]
		e := NewPropagationEntry(ref, target, "https://example.com/up", w.commits[0])
		err = e.Commit(w.st, false)
	case 3: // automatic skip of rewritten history
		ref := verif.OneOf(p+".ref", "refs/heads/main", "refs/gittuf/policy")
		err = SkipAllInvalidReferenceEntriesForRef(w.st, ref, false)
		if err == nil && s.NumCommits() == beforeCount {
			appended = 0 // nothing to skip
		}
	}

	afterIDs, afterNumbers, okAfter := zz3Walk(s)
	verif.Assert(okAfter, "chain-valid-after")
	if !okAfter {
		return false
	}
	if err != nil {
		verif.Reach("refused")
		verif.Assert(s.NumCommits() == beforeCount, "failed-op-created-nothing")
		verif.Assert(len(afterIDs) == len(beforeIDs), "failed-op-appended-nothing")
		if beforeTip != nil {
			verif.Assert(s.Ref(Ref).Equal(beforeTip), "failed-op-tip-unchanged")
		} else {
			verif.Assert(s.Ref(Ref) == nil, "failed-op-tip-unset")
		}
	} else {
		verif.Reach("recorded")
		verif.Assert(!expectRefuse, "annotation-of-non-entry-refused")
		verif.Assert(len(afterIDs) == len(beforeIDs)+appended, "appended-exactly-one")
		verif.Assert(s.NumCommits() == beforeCount+appended, "created-exactly-one")
		// append-only: the old chain is a prefix of the new one
		prefixOK := len(afterIDs) >= len(beforeIDs)
		if prefixOK {
			for i := range beforeIDs {
				if !afterIDs[i].Equal(beforeIDs[i]) {
					prefixOK = false
				}
			}
		}
		verif.Assert(prefixOK, "earlier-tip-still-ancestor")
		if appended == 1 && len(afterNumbers) > 0 {
			last := afterNumbers[len(afterNumbers)-1]
			if op == 4 || op == 5 {
				verif.Assert(last == 0, "unnumbered-op-number")
			} else if len(beforeNumbers) == 0 {
				verif.Assert(last == 1, "first-number-is-1")
			} else {
				verif.Assert(last == beforeNumbers[len(beforeNumbers)-1]+1, "number-is-parent-plus-1")
			}
		}
	}
	_ = afterNumbers
	return unnumberedSoFar
}

// HarnessC03Sequence: sequences of recording operations from an empty log,
// optionally beginning with legacy unnumbered entries.
func HarnessC03Sequence() { zz3Sequence(false) }

// HarnessC03GitInterface: the same sequences recorded through the real
// gitinterface.Repository (Commit = read tip, commit-tree, compare-and-set
// update-ref; GetCommitMessage, GetCommitParentIDs, KnowsCommit, ...) over the
// git command model.
func HarnessC03GitInterface() { zz3Sequence(true) }

func zz3Sequence(viaGitInterface bool) {
	w := zz3NewWorld()
	s := w.s
	if viaGitInterface {
		w.st = gitinterface.ZZNewModelRepo(s)
	}
	legacy := false
	// start state, built with the real recorders
	switch verif.Concrete(verif.Choice("start", 6)) {
	case 0: // empty log
	case 1: // numbered log, one entry
		zz3Must(NewReferenceEntry("refs/heads/main", w.commits[0]).Commit(w.st, false))
	case 2: // numbered log: entry for a rewritten branch, newer entry, so that automatic skipping has work
		zz3Must(NewReferenceEntry("refs/heads/main", w.commits[2]).Commit(w.st, false))
		zz3Must(NewReferenceEntry("refs/heads/main", w.commits[1]).Commit(w.st, false))
	case 3: // numbered log with an annotation
		zz3Must(NewReferenceEntry("refs/heads/main", w.commits[0]).Commit(w.st, false))
		zz3Must(NewAnnotationEntry([]githash.Hash{s.Ref(Ref)}, true, "msg").Commit(w.st, false))
	case 4: // legacy log without numbers
		zz3Must(NewReferenceEntry("refs/heads/main", w.commits[0]).CommitWithoutNumber(w.st))
		legacy = true
	default: // legacy log that already moved to numbering
		zz3Must(NewReferenceEntry("refs/heads/main", w.commits[0]).CommitWithoutNumber(w.st))
		zz3Must(NewReferenceEntry("refs/heads/main", w.commits[1]).Commit(w.st, false))
	}
	maxOps := verif.Bound("ops", 2, 3)
	if viaGitInterface {
		maxOps = 2 // the git-command variant repeats the 2-operation space in both tiers
	}
	n := verif.Concrete(verif.IntRange("nops", 1, maxOps))
	for k := 0; k < n; k++ {
		zz3Op(w, k, legacy)
	}
}

func zz3Must(err error) {
	if err != nil {
		panic("harness setup failed: " + err.Error())
	}
}

// HarnessC03Numbering: arithmetic obligations with a symbolic tip number.
func HarnessC03Numbering() {
	newRSLCache() // the process-wide entry cache must not carry entries of an earlier (native) run
	s := zzmem.New(3)
	empty := s.RawEmptyTree()
	n := verif.Uint64("tipnumber")
	tipID := zz4ID(1)
	parentID := zz4ID(0)
	s.PutCommit(parentID, empty, nil, "injected", zzmem.Unsigned)
	s.PutCommit(tipID, empty, []githash.Hash{parentID}, "injected", zzmem.Unsigned)
	s.SetRef(Ref, tipID)
	tip := &ReferenceEntry{ID: tipID, RefName: "refs/heads/main", TargetID: zz4Target(1), Number: n}
	cache.setEntry(tipID, tip)

	// every recorder numbers the new entry tip+1
	verif.Assume(n != 18446744073709551615) // 2^64-1 entries: unreachable pre-state, stated
	which := verif.Concrete(verif.Choice("recorder", 3))
	var got uint64
	var err error
	switch which {
	case 0:
		e := NewReferenceEntry("refs/heads/main", zz4Target(2))
		err = e.setEntryNumber(s)
		got = e.Number
	case 1:
		a := NewAnnotationEntry([]githash.Hash{tipID}, true, "")
		err = a.setEntryNumber(s)
		got = a.Number
	default:
		e := NewPropagationEntry("refs/heads/main", zz4Target(2), "u", zz4Target(3))
		err = e.setEntryNumber(s)
		got = e.Number
	}
	verif.Assert(err == nil, "numbering-ok")
	verif.Assert(got == n+1, "number-is-tip-plus-1")
	verif.Reach("numbered")

	// GetParentForEntry accepts exactly the consecutive pairs
	pn := verif.Uint64("parentnumber")
	parent := &ReferenceEntry{ID: parentID, RefName: "refs/heads/main", TargetID: zz4Target(0), Number: pn}
	cache.setEntry(parentID, parent)
	_, perr := GetParentForEntry(s, tip)
	consecutive := (n <= 1 && pn == 0) || (n > 1 && pn == n-1)
	verif.Assert((perr == nil) == consecutive, "parent-accepted-iff-consecutive")
	if perr == nil {
		verif.Reach("parent-accepted")
	} else {
		verif.Reach("parent-rejected")
	}
}
