package policy

// C02 harness: policy takes effect only via an unbroken, rollback-free chain
// of trust, whichever verification mode is used.

import (
	"github.com/gittuf/gittuf/internal/signerverifier/dsse"
	sslibdsse "github.com/gittuf/gittuf/internal/third_party/go-securesystemslib/dsse"
	tufv02 "github.com/gittuf/gittuf/internal/tuf/v02"
	policyopts "github.com/gittuf/gittuf/internal/policy/options/policy"
	"github.com/gittuf/gittuf/internal/tuf"
	"strconv"

	zzmem "github.com/gittuf/gittuf/internal/zzmem"
	verif "github.com/gittuf/gittuf/internal/zzverif"
	"github.com/gittuf/gittuf/pkg/rsl"
)

// zz2Successor describes how the next policy state differs and who signed it.
type zz2Successor struct {
	rootKeys     []int // root principals the new root declares
	rootTh       int
	rootSigners  []int // keys that actually signed the new root
	rootVersion  uint64
	targetsVer   uint64
	ruleFile     int // 0 properly signed, 1 signed by an undeclared key, 2 primary rule file missing, 3 delegated file dropped, 4 extra unreachable file
	valid        bool // reference verdict (may be symbolic)
}

// zz2Tamper writes a policy state straight to the policy ref and the RSL (an
// attacker or a buggy client bypassing Apply).
func (w *zzWorld) zz2Tamper(spec *zzPolicySpec, state *State, signer int) {
	w.S.Signer = signer
	zzMust(state.Commit(w.S, "tampered policy", true, true))
	tip := w.S.Ref(PolicyStagingRef)
	w.S.SetRef(PolicyRef, tip)
	zzMust(rsl.NewReferenceEntry(PolicyRef, tip).Commit(w.S, true))
	w.policies = append(w.policies, spec)
	w.hist = append(w.hist, zzEvent{kind: "policy", ref: PolicyRef, signer: signer, policy: len(w.policies) - 2, applied: true, newSpec: spec,
		entryID: w.S.Ref(rsl.Ref), target: tip})
}

func zz2Subset(name string, universe []int) []int {
	var out []int
	for _, k := range universe {
		if verif.ConcreteBool(verif.Bool(name + ".k" + strconv.Itoa(k))) {
			out = append(out, k)
		}
	}
	return out
}

// zz2Universe: the keys the successor root may declare (quick: key0 and a new
// key2; thorough: key0, key1, key2).
func zz2Universe(name string) []int {
	if verif.Bound(name, 2, 3) == 2 {
		return []int{0, 2}
	}
	return []int{0, 1, 2}
}

func zz2Count(signers, trusted []int) int {
	n := 0
	for _, t := range trusted {
		for _, s := range signers {
			if s == t {
				n++
				break
			}
		}
	}
	return n
}

func HarnessC02Chain() {
	w := zzNewWorld()
	// P0: root keys {0,1} threshold t0; primary rule file signed by key0;
	// delegated file release-team signed by key2
	t0 := verif.Concrete(verif.IntRange("p0.rootthreshold", 1, 2))
	p0 := zzBasePolicy([]int{0, 1}, nil)
	p0.rootKeys, p0.rootThreshold = []int{0, 1}, t0
	p0.rootVersion, p0.targetsVer = 5, 5
	zzMust(w.zzStageAndApply(p0, w.zzBuildState(p0, []int{0, 1}, []int{0}), 0))

	// where the reference entries for main sit relative to the successor
	pushBefore := verif.ConcreteBool(verif.Bool("push.before"))
	variant := 0
	if pushBefore {
		variant++
		w.zzPush(zzMain, 0, variant, false)
	}

	// successor P1
	suc := zz2Successor{
		rootKeys:    zz2Subset("p1.rootkeys", zz2Universe("declared")),
		rootSigners: zz2Subset("p1.rootsigners", []int{0, 1, 2}),
		rootVersion: verif.Uint64("p1.rootversion"),
		targetsVer:  verif.Uint64("p1.targetsversion"),
		ruleFile:    verif.Concrete(verif.Choice("p1.rulefile", 5)),
	}
	if len(suc.rootKeys) == 0 {
		return // a root without principals cannot be built with the real mutators
	}
	suc.rootTh = verif.Concrete(verif.IntRange("p1.rootthreshold", 1, len(suc.rootKeys)))
	p1 := zzBasePolicy([]int{0, 1}, nil)
	p1.rootKeys, p1.rootThreshold = suc.rootKeys, suc.rootTh
	p1.rootVersion, p1.targetsVer = suc.rootVersion, suc.targetsVer
	targetsSigners := []int{0}
	switch suc.ruleFile {
	case 1:
		targetsSigners = []int{zzUnknownKey} // forged: signed by a key the root does not name
	case 2:
		p1.targetsKeys = nil // no primary rule file at all
		p1.rules, p1.delegated = nil, nil
	case 3:
		p1.rules = p1.rules[:1] // the delegated rule file (and its rules) disappear
		p1.delegated = nil
	case 4:
		p1.delegated["orphan"] = []int{2} // a rule file no rule delegates to
	}
	if suc.ruleFile != 2 {
		p1.targetsKeys = []int{0}
	}
	state := w.zzBuildState(p1, suc.rootSigners, targetsSigners)
	w.zz2Tamper(p1, state, 0)

	// reference verdict on the successor
	signedByOld := zz2Count(suc.rootSigners, p0.rootKeys) >= p0.rootThreshold
	selfSigned := zz2Count(suc.rootSigners, suc.rootKeys) >= suc.rootTh
	noRollback := verif.And(suc.rootVersion >= p0.rootVersion, verif.Or(suc.ruleFile == 2, suc.targetsVer >= p0.targetsVer))
	filesOK := suc.ruleFile == 0
	valid := verif.And(verif.And(signedByOld, selfSigned), verif.And(noRollback, filesOK))

	// a push to main after the successor, by key0 (authorised by both policies)
	pushAfter := verif.ConcreteBool(verif.Bool("push.after"))
	if pushAfter {
		variant++
		w.zzPush(zzMain, 0, variant, false)
	}
	if !pushBefore && !pushAfter {
		// no reference entry: only LoadCurrentState can be asked
		_, err := LoadCurrentState(w.ctx, w.S, PolicyRef)
		verif.Assert((err == nil) == valid, "LoadCurrentState-errs-iff-chain-invalid")
		verif.Reach("loadstate")
		// the first root of trust pinned by the caller: every pinned principal
		// must have signed it (P0's root is signed by key0 and key1)
		var pinned []tuf.Principal
		pinnedSigned := true
		switch verif.Concrete(verif.Choice("pinned", 4)) {
		case 1:
			pinned = []tuf.Principal{zzKey(0)}
		case 2:
			pinned = []tuf.Principal{zzKey(0), zzKey(1)}
		case 3:
			pinned = []tuf.Principal{zzKey(0), zzKey(2)}
			pinnedSigned = false
		}
		if len(pinned) > 0 {
			_, err := LoadCurrentState(w.ctx, w.S, PolicyRef, policyopts.WithInitialRootPrincipals(pinned))
			verif.Assert((err == nil) == verif.And(valid, pinnedSigned), "pinned-first-root:loads-iff-chain-valid-and-every-pinned-principal-signed")
		}
		return
	}

	_, errLoad := LoadCurrentState(w.ctx, w.S, PolicyRef)
	verif.Assert((errLoad == nil) == valid, "LoadCurrentState-errs-iff-chain-invalid")

	mode := verif.Concrete(verif.Choice("mode", 4))
	var err error
	depends := true // does this verification depend on the successor state?
	switch mode {
	case 0: // full
		_, err = NewPolicyVerifier(w.S).VerifyRefFull(w.ctx, zzMain)
		depends = pushAfter
	case 1: // latest only
		_, err = NewPolicyVerifier(w.S).VerifyRef(w.ctx, zzMain)
		depends = pushAfter
	case 2: // from entry: start at the first entry for main
		var first *zzEvent
		for k := range w.hist {
			if w.hist[k].kind == "push" && w.hist[k].ref == zzMain {
				first = &w.hist[k]
				break
			}
		}
		_, err = NewPolicyVerifier(w.S).VerifyRefFromEntry(w.ctx, zzMain, first.entryID)
		depends = pushAfter
	default: // mergeability of feature into main against the latest policy
		variant++
		w.zzPush(zzFeature, 0, variant, false)
		_, err = NewPolicyVerifier(w.S).VerifyMergeable(w.ctx, zzMain, zzFeature)
		depends = true
	}
	_ = zzmem.Unsigned
	if depends {
		verif.Assert(verif.Implies(!valid, err != nil), "invalid-policy-entry-fails-verification[mode"+strconv.Itoa(mode)+"]")
		if err == nil {
			verif.Reach("accepted")
		} else {
			verif.Reach("rejected")
		}
	}
}

// HarnessC02DelegatedSigner: a delegated rule file must be signed as required
// by the rule that delegates to it, with the principals as the DELEGATING file
// defines them.  The primary rule file binds person "alice" to key2 and
// delegates refs/heads/release to her; the delegated file may declare "alice"
// again with another key (keyX) and is signed by a symbolic subset of
// {key2, keyX}.  The state is written as a successor behind Apply's back.
func HarnessC02DelegatedSigner() {
	w := zzNewWorld()
	p0 := zzBasePolicy([]int{0, 1}, nil)
	zzMust(w.zzStageAndApply(p0, w.zzBuildState(p0, []int{0}, []int{0}), 0))
	w.zzPush(zzMain, 0, 1, false)

	person := func(k int) *tufv02.Person {
		return &tufv02.Person{PersonID: "alice", PublicKeys: map[string]*tufv02.Key{zzKeyIDs[k]: zzKey(k)}}
	}
	root := tufv02.NewRootMetadata()
	zzMust(root.AddRootPrincipal(zzKey(0)))
	zzMust(root.AddPrimaryRuleFilePrincipal(zzKey(0)))
	root.Version = 2
	rootEnv, err := dsse.CreateEnvelope(root)
	zzMust(err)
	zzSignEnv(rootEnv, 0)

	primary := tufv02.NewTargetsMetadata()
	zzMust(primary.AddPrincipal(zzKey(0)))
	zzMust(primary.AddPrincipal(zzKey(1)))
	zzMust(primary.AddPrincipal(person(2)))
	zzMust(primary.AddRule("protect-main", []string{zzKeyIDs[0], zzKeyIDs[1]}, []string{"git:" + zzMain}, 1))
	zzMust(primary.AddRule("release-team", []string{"alice"}, []string{"git:" + zzRelease}, 1))
	primary.Version = 2
	pEnv, err := dsse.CreateEnvelope(primary)
	zzMust(err)
	zzSignEnv(pEnv, 0)

	delegated := tufv02.NewTargetsMetadata()
	redeclared := verif.Concrete(verif.Choice("delegated.declares.alice", 3)) // 0 not at all, 1 with key2, 2 with keyX
	switch redeclared {
	case 1:
		zzMust(delegated.AddPrincipal(person(2)))
	case 2:
		zzMust(delegated.AddPrincipal(person(zzUnknownKey)))
	}
	zzMust(delegated.AddPrincipal(zzKey(3)))
	zzMust(delegated.AddRule("release-inner", []string{zzKeyIDs[3]}, []string{"git:" + zzRelease}, 1))
	dEnv, err := dsse.CreateEnvelope(delegated)
	zzMust(err)
	byAlice := verif.ConcreteBool(verif.Bool("delegated.signed.key2"))
	byForger := verif.ConcreteBool(verif.Bool("delegated.signed.keyX"))
	var signers []int
	if byAlice {
		signers = append(signers, 2)
	}
	if byForger {
		signers = append(signers, zzUnknownKey)
	}
	zzSignEnv(dEnv, signers...)

	state := &State{Metadata: &StateMetadata{RootEnvelope: rootEnv, TargetsEnvelope: pEnv, DelegationEnvelopes: map[string]*sslibdsse.Envelope{"release-team": dEnv}}}
	w.zz2Tamper(&zzPolicySpec{}, state, 0)
	w.zzPush(zzMain, 0, 2, false)

	_, lerr := LoadCurrentState(w.ctx, w.S, PolicyRef)
	_, verr := NewPolicyVerifier(w.S).VerifyRefFull(w.ctx, zzMain)
	if lerr == nil {
		verif.Reach("accepted")
	} else {
		verif.Reach("rejected")
	}
	verif.Assert((lerr == nil) == byAlice, "delegated-file-loads-iff-signed-with-the-key-the-delegating-file-binds-to-the-principal")
	verif.Assert(verif.Implies(!byAlice, verr != nil), "verification-depending-on-the-state-fails-when-the-delegated-file-is-not-properly-signed")
}

// HarnessC02RootOnly: the bootstrap phase, in which policy states consist of a
// root of trust only (no primary rule file yet).  A successor root with an
// unconstrained version number signed by a symbolic subset of keys, written
// behind Apply's back: it takes effect only if signed by the old root's
// threshold, by its own, and not rolled back.
func HarnessC02RootOnly() {
	w := zzNewWorld()
	p0 := &zzPolicySpec{rootKeys: []int{0, 1}, rootThreshold: 1, rootVersion: 5}
	zzMust(w.zzStageAndApply(p0, w.zzBuildState(p0, []int{0}, nil), 0))

	p1 := &zzPolicySpec{rootKeys: zz2Subset("p1.rootkeys", []int{0, 1, 2}), rootThreshold: 1, rootVersion: verif.Uint64("p1.rootversion")}
	if len(p1.rootKeys) == 0 {
		return
	}
	signers := zz2Subset("p1.rootsigners", []int{0, 1, 2})
	w.zz2Tamper(p1, w.zzBuildState(p1, signers, nil), 0)

	signedByOld := zz2Count(signers, p0.rootKeys) >= 1
	selfSigned := zz2Count(signers, p1.rootKeys) >= 1
	valid := verif.And(verif.And(signedByOld, selfSigned), p1.rootVersion >= p0.rootVersion)
	_, err := LoadCurrentState(w.ctx, w.S, PolicyRef)
	if err == nil {
		verif.Reach("accepted")
	} else {
		verif.Reach("rejected")
	}
	verif.Assert((err == nil) == valid, "root-only-successor-loads-iff-signed-by-old-and-new-roots-and-not-rolled-back")
}
