package policy

// C08 harness: verdicts depend only on the log, never on the persistent
// cache, on repetition, or on the checkpoint reached by earlier verification.

import (
	"strconv"

	"github.com/gittuf/gittuf/internal/cache"
	verif "github.com/gittuf/gittuf/internal/zzverif"
	"github.com/gittuf/gittuf/pkg/githash"
)

func zz8Verify(w *zzWorld, ref string, latestOnly bool) (githash.Hash, error) {
	v := NewPolicyVerifier(w.S)
	if latestOnly {
		return v.VerifyRef(w.ctx, ref)
	}
	return v.VerifyRefFull(w.ctx, ref)
}

func zz8RefsExceptCache(w *zzWorld) string {
	s := ""
	for _, r := range w.S.RefNames() {
		if r == cache.Ref {
			continue
		}
		s += r + "=" + w.S.Ref(r).String() + ";"
	}
	return s
}

func HarnessC08Cache() {
	w := zzNewWorld()
	spec := zzBasePolicy([]int{0, 1}, nil)
	zzMust(w.zzStageAndApply(spec, w.zzBuildState(spec, []int{0}, []int{0}), 0))
	w.zzPush(zzMain, 0, 1, false)

	variant := 1
	populatedBeforeUpdate := false
	policyUpdated := false
	n := verif.Concrete(verif.IntRange("slots", 1, verif.Bound("slots", 2, 3)))
	for i := 0; i < n; i++ {
		p := "s" + strconv.Itoa(i)
		// optional cache action before the slot
		switch verif.Concrete(verif.Choice(p+".cache", 4)) {
		case 1:
			zzMust(cache.PopulatePersistentCache(w.S))
			if !policyUpdated {
				populatedBeforeUpdate = true
			}
		case 2:
			zz8Verify(w, zzMain, false) //nolint:errcheck
		case 3:
			zz8Verify(w, zzMain, true) //nolint:errcheck
		}
		switch verif.Concrete(verif.Choice(p+".kind", 3)) {
		case 0:
			variant++
			w.zzPush(zzMain, verif.Choice(p+".signer", 3), variant, false)
		case 1:
			variant++
			w.zzPush(zzFeature, verif.Choice(p+".signer", 3), variant, false)
		default:
			if policyUpdated {
				continue
			}
			next := zzBasePolicy([]int{1}, nil) // key0 de-authorised for main
			next.rootVersion, next.targetsVer = 2, 2
			zzMust(w.zzStageAndApply(next, w.zzBuildState(next, []int{0}, []int{0}), 0))
			policyUpdated = true
		}
	}

	latestOnly := verif.ConcreteBool(verif.Bool("latestonly"))
	ref := verif.OneOf("ref", zzMain, zzFeature)
	if _, has := w.tips[ref]; !has {
		return
	}

	// with whatever cache the history left behind
	before := zz8RefsExceptCache(w)
	tipC, errC := zz8Verify(w, ref, latestOnly)
	verif.Assert(zz8RefsExceptCache(w) == before, "verification-changes-no-reference-but-the-cache")
	tipC2, errC2 := zz8Verify(w, ref, latestOnly)
	verif.Assert((errC == nil) == (errC2 == nil) && tipC.Equal(tipC2), "repeated-verification-same-verdict")

	// without any cache
	cacheTip := w.S.Ref(cache.Ref)
	if cacheTip != nil {
		w.S.DropRef(cache.Ref)
	}
	tipN, errN := zz8Verify(w, ref, latestOnly)

	// Known finding C08-K1: a cache populated before a de-authorising policy
	// answers "latest policy" from its stale index, so entries signed by the
	// revoked key are accepted (and then remembered as verified).
	k1 := populatedBeforeUpdate && policyUpdated && errC == nil && errN != nil
	verif.Witness("C08-K1", k1)
	verif.Assert(((errC == nil) == (errN == nil)) || k1, "verdict-independent-of-cache")
	if errC == nil && errN == nil {
		verif.Assert(tipC.Equal(tipN), "tip-independent-of-cache")
		verif.Reach("both-accept")
	}
	if errC != nil && errN != nil {
		verif.Reach("both-reject")
	}
	if cacheTip != nil {
		verif.Reach("cache-present")
	}
}
