package policy

// C08 harness: verdicts depend only on the log, never on the persistent
// cache, on repetition, or on the checkpoint reached by earlier verification.

import (
	"strconv"

	"github.com/gittuf/gittuf/internal/cache"
	verif "github.com/gittuf/gittuf/internal/zzverif"
	"github.com/gittuf/gittuf/pkg/githash"
)

func zz8Verify(w *zzWorld, ref string, latestOnly bool) (githash.Hash, error) {
	v := NewPolicyVerifier(w.S)
	if latestOnly {
		return v.VerifyRef(w.ctx, ref)
	}
	return v.VerifyRefFull(w.ctx, ref)
}

func zz8RefsExceptCache(w *zzWorld) string {
	s := ""
	for _, r := range w.S.RefNames() {
		if r == cache.Ref {
			continue
		}
		s += r + "=" + w.S.Ref(r).String() + ";"
	}
	return s
}

func HarnessC08Cache() {
	w := zzNewWorld()
	spec := zzBasePolicy([]int{0, 1}, nil)
	zzMust(w.zzStageAndApply(spec, w.zzBuildState(spec, []int{0}, []int{0}), 0))
	w.zzPush(zzMain, 0, 1, false)

	variant := 1
	populatedBeforeUpdate := false
	policyUpdated := false
	n := verif.Concrete(verif.IntRange("slots", 1, verif.Bound("slots", 2, 3)))
	for i := 0; i < n; i++ {
		p := "s" + strconv.Itoa(i)
		// optional cache action before the slot
		switch verif.Concrete(verif.Choice(p+".cache", 4)) {
		case 1:
			zzMust(cache.PopulatePersistentCache(w.S))
			if !policyUpdated {
				populatedBeforeUpdate = true
			}
		case 2:
			zz8Verify(w, zzMain, false) //nolint:errcheck
		case 3:
			zz8Verify(w, zzMain, true) //nolint:errcheck
		}
		switch verif.Concrete(verif.Choice(p+".kind", 3)) {
		case 0:
			variant++
			w.zzPush(zzMain, verif.Choice(p+".signer", 3), variant, false)
		case 1:
			variant++
			w.zzPush(zzFeature, verif.Choice(p+".signer", 3), variant, false)
		default:
			if policyUpdated {
				continue
			}
			next := zzBasePolicy([]int{1}, nil) // key0 de-authorised for main
			next.rootVersion, next.targetsVer = 2, 2
			zzMust(w.zzStageAndApply(next, w.zzBuildState(next, []int{0}, []int{0}), 0))
			policyUpdated = true
		}
	}

	latestOnly := verif.ConcreteBool(verif.Bool("latestonly"))
	ref := verif.OneOf("ref", zzMain, zzFeature)
	if _, has := w.tips[ref]; !has {
		return
	}

	// with whatever cache the history left behind
	before := zz8RefsExceptCache(w)
	tipC, errC := zz8Verify(w, ref, latestOnly)
	verif.Assert(zz8RefsExceptCache(w) == before, "verification-changes-no-reference-but-the-cache")
	tipC2, errC2 := zz8Verify(w, ref, latestOnly)
	verif.Assert((errC == nil) == (errC2 == nil) && tipC.Equal(tipC2), "repeated-verification-same-verdict")

	// without any cache
	cacheTip := w.S.Ref(cache.Ref)
	if cacheTip != nil {
		w.S.DropRef(cache.Ref)
	}
	tipN, errN := zz8Verify(w, ref, latestOnly)

	// Known finding C08-K1: a cache populated before a de-authorising policy
	// answers "latest policy" from its stale index, so entries signed by the
	// revoked key are accepted (and then remembered as verified).
	k1 := populatedBeforeUpdate && policyUpdated && errC == nil && errN != nil
	verif.Witness("C08-K1", k1)
	verif.Assert(((errC == nil) == (errN == nil)) || k1, "verdict-independent-of-cache")
	if errC == nil && errN == nil {
		verif.Assert(tipC.Equal(tipN), "tip-independent-of-cache")
		verif.Reach("both-accept")
	}
	if errC != nil && errN != nil {
		verif.Reach("both-reject")
	}
	if cacheTip != nil {
		verif.Reach("cache-present")
	}
}

// HarnessC08Recovery: a recovery skeleton -- a valid first push, three more
// pushes by symbolic signers (the last one restoring any earlier tree), and
// one annotation revoking a symbolic subset of them placed after any push --
// verified repeatedly with a persistent cache that was populated at a symbolic
// point of the log's growth, and then without any cache.  All verdicts must
// be equal: an unsuccessful run must not leave a checkpoint behind that makes
// the next run succeed.
func HarnessC08Recovery() {
	w := zzNewWorld()
	spec := zzBasePolicy([]int{0, 1}, nil)
	zzMust(w.zzStageAndApply(spec, w.zzBuildState(spec, []int{0}, []int{0}), 0))
	w.zzPush(zzMain, 0, 1, false)

	populateAt := verif.Concrete(verif.Choice("populate.at", 4))  // before push 1, 2, 3, or after push 3
	annotateAt := verif.Concrete(verif.Choice("annotate.after", 3)) // after push 1, 2 or 3
	midVerify := verif.ConcreteBool(verif.Bool("verify.midway"))   // a verification run while the log is still growing
	var idx []int
	for i := 0; i < 3; i++ {
		if populateAt == i {
			zzMust(cache.PopulatePersistentCache(w.S))
		}
		p := "p" + strconv.Itoa(i+1)
		tree := i + 2
		if i == 2 {
			tree = 1 + verif.Concrete(verif.Choice("p3.tree", 3))
		}
		w.zzPush(zzMain, verif.Choice(p+".signer", 3), tree, false)
		idx = append(idx, len(w.hist)-1)
		if annotateAt == i {
			var targets []int
			for k, h := range idx {
				if verif.ConcreteBool(verif.Bool("skip.p" + strconv.Itoa(k+1))) {
					targets = append(targets, h)
				}
			}
			if len(targets) > 0 {
				w.zzSkip(0, targets...)
			}
		}
		if midVerify && i == 1 {
			zz8Verify(w, zzMain, false) //nolint:errcheck
		}
	}
	if populateAt == 3 {
		zzMust(cache.PopulatePersistentCache(w.S))
	}

	_, err1 := zz8Verify(w, zzMain, false)
	_, err2 := zz8Verify(w, zzMain, false)
	_, err3 := zz8Verify(w, zzMain, false)
	verif.Assert((err1 == nil) == (err2 == nil) && (err2 == nil) == (err3 == nil), "repeated-verification-same-verdict")
	w.S.DropRef(cache.Ref)
	_, errN := zz8Verify(w, zzMain, false)
	verif.Assert((err1 == nil) == (errN == nil), "verdict-independent-of-cache")
	if errN == nil {
		verif.Reach("both-accept")
	} else {
		verif.Reach("both-reject")
	}
	for _, h := range idx {
		if w.hist[h].skipped && errN == nil {
			verif.Reach("accepted-with-revocation")
		}
	}
}

// HarnessC08ForgedPolicy: a successor policy written to the policy reference
// behind Apply's back (root keys and signers are symbolic subsets, so the
// successor may or may not be a valid one) followed by a push that only the
// successor authorises; the verdicts with no cache and with a cache populated
// at any point must agree.
func HarnessC08ForgedPolicy() {
	w := zzNewWorld()
	p0 := zzBasePolicy([]int{0, 1}, nil)
	zzMust(w.zzStageAndApply(p0, w.zzBuildState(p0, []int{0}, []int{0}), 0))
	w.zzPush(zzMain, 0, 1, false)
	populateAt := verif.Concrete(verif.Choice("populate.at", 3)) // before the successor, after it, after the last push
	if populateAt == 0 {
		zzMust(cache.PopulatePersistentCache(w.S))
	}
	p1 := zzBasePolicy([]int{2}, nil) // main is now trusted to key2 only
	p1.rootKeys = zz2Subset("p1.rootkeys", []int{0, 2})
	if len(p1.rootKeys) == 0 {
		return
	}
	p1.rootThreshold = 1
	p1.rootVersion, p1.targetsVer = 2, 2
	p1.targetsKeys = []int{p1.rootKeys[0]}
	state := w.zzBuildState(p1, zz2Subset("p1.rootsigners", []int{0, 2}), []int{p1.rootKeys[0]})
	w.zz2Tamper(p1, state, 0)
	if populateAt == 1 {
		zzMust(cache.PopulatePersistentCache(w.S))
	}
	w.zzPush(zzMain, verif.Choice("push.signer", 3), 2, false)
	if populateAt == 2 {
		zzMust(cache.PopulatePersistentCache(w.S))
	}
	latestOnly := verif.ConcreteBool(verif.Bool("latestonly"))
	_, errC := zz8Verify(w, zzMain, latestOnly)
	_, errC2 := zz8Verify(w, zzMain, latestOnly)
	verif.Assert((errC == nil) == (errC2 == nil), "repeated-verification-same-verdict")
	w.S.DropRef(cache.Ref)
	_, errN := zz8Verify(w, zzMain, latestOnly)
	// Known finding C08-K1 (stale index): the cache was populated before the policy changed
	k1 := populateAt == 0 && (errC == nil) != (errN == nil)
	verif.Witness("C08-K1", k1)
	verif.Assert(((errC == nil) == (errN == nil)) || k1, "verdict-independent-of-cache")
	if errN == nil {
		verif.Reach("both-accept")
	} else {
		verif.Reach("both-reject")
	}
}

// HarnessC08FromEntry: verifying onward from an entry reached by an earlier
// successful verification gives the same verdict as verifying the whole log.
func HarnessC08FromEntry() {
	w := zzNewWorld()
	spec := zzBasePolicy([]int{0, 1}, nil)
	zzMust(w.zzStageAndApply(spec, w.zzBuildState(spec, []int{0}, []int{0}), 0))
	w.zzPush(zzMain, 0, 1, false)

	n := verif.Concrete(verif.IntRange("slots", 2, verif.Bound("slots", 3, 4)))
	mid := verif.Concrete(verif.Choice("checkpoint.after", n)) // the slot after which the earlier verification ran
	var checkpoint githash.Hash
	checkpointOK := false
	policyUpdated := false
	variant := 1
	for i := 0; i < n; i++ {
		p := "s" + strconv.Itoa(i)
		switch verif.Concrete(verif.Choice(p+".kind", 3)) {
		case 0:
			variant++
			w.zzPush(zzMain, verif.Choice(p+".signer", 3), variant, false)
		case 1:
			variant++
			w.zzPush(zzFeature, verif.Choice(p+".signer", 3), variant, false)
		default:
			if !policyUpdated {
				next := zzBasePolicy([]int{1}, nil) // key0 de-authorised for main
				next.rootVersion, next.targetsVer = 2, 2
				zzMust(w.zzStageAndApply(next, w.zzBuildState(next, []int{0}, []int{0}), 0))
				policyUpdated = true
			}
		}
		if i == mid {
			_, err := zz8Verify(w, zzMain, false)
			checkpointOK = err == nil
			for k := len(w.hist) - 1; k >= 0; k-- {
				if w.hist[k].kind == "push" && w.hist[k].ref == zzMain {
					checkpoint = w.hist[k].entryID
					break
				}
			}
		}
	}
	if !checkpointOK || checkpoint == nil {
		verif.Reach("no-checkpoint")
		return
	}
	tipFull, errFull := zz8Verify(w, zzMain, false)
	tipFrom, errFrom := NewPolicyVerifier(w.S).VerifyRefFromEntry(w.ctx, zzMain, checkpoint)
	verif.Assert((errFull == nil) == (errFrom == nil), "from-checkpoint-verdict-equals-full-verdict")
	if errFull == nil && errFrom == nil {
		verif.Assert(tipFull.Equal(tipFrom), "from-checkpoint-tip-equals-full-tip")
		verif.Reach("both-accept")
	}
	if errFull != nil {
		verif.Reach("both-reject")
	}
}
