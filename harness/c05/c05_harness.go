package policy

// C05 harness: thresholds count distinct trusted principals, each with a
// distinct valid key.
//
// Unit: the real SignatureVerifier.Verify, gitobject.Verify, dsse.VerifyEnvelope
// and EnvelopeVerifier.Verify; only the signature primitives are modelled.

import (
	"context"
	"encoding/base64"
	"strconv"

	"github.com/gittuf/gittuf/internal/signerverifier/dsse"
	sslibdsse "github.com/gittuf/gittuf/internal/third_party/go-securesystemslib/dsse"
	"github.com/gittuf/gittuf/internal/tuf"
	tufv01 "github.com/gittuf/gittuf/internal/tuf/v01"
	tufv02 "github.com/gittuf/gittuf/internal/tuf/v02"
	zzmem "github.com/gittuf/gittuf/internal/zzmem"
	"github.com/gittuf/gittuf/internal/zzsig"
	verif "github.com/gittuf/gittuf/internal/zzverif"
	"github.com/gittuf/gittuf/pkg/githash"
)

// key ids of equal length; the last two are never trusted by the rule
var zz5KeyIDs = []string{"key0", "key1", "key2", "key3", "key4", "key5", "keyX", "keyY"}

const zz5NKeys = 6

func zz5Key(i int, keyType string) *tufv01.Key {
	k := &tufv01.Key{}
	k.KeyID = zz5KeyIDs[i]
	k.KeyType = keyType
	k.Scheme = keyType
	k.KeyVal.Public = "public material of " + zz5KeyIDs[i]
	return k
}

type zz5Principal struct {
	id   string
	keys []int // indices into zz5KeyIDs
}

func HarnessC05() {
	ctx := context.Background()
	keyType := verif.OneOf("keytype", "ssh", "gpg")

	// principals: 1..maxP, each with 1 or 2 keys; the second key of a
	// principal may be a key of an earlier principal (sharing)
	maxP := verif.Bound("principals", 3, 3)
	np := verif.Concrete(verif.IntRange("nprincipals", 0, maxP))
	var prs []zz5Principal
	next := 0
	shared := false
	for p := 0; p < np; p++ {
		pr := zz5Principal{id: "person" + strconv.Itoa(p)}
		pr.keys = append(pr.keys, next)
		next++
		switch verif.Concrete(verif.Choice("p"+strconv.Itoa(p)+".second", 3)) {
		case 1: // a second key of their own
			if next < zz5NKeys {
				pr.keys = append(pr.keys, next)
				next++
			}
		case 2: // a second key that is the first key of principal 0 (sharing)
			if p > 0 {
				pr.keys = append(pr.keys, prs[0].keys[0])
				shared = true
			}
		}
		prs = append(prs, pr)
	}
	var principals []tuf.Principal
	for p, pr := range prs {
		if len(pr.keys) == 1 && verif.Concrete(verif.Choice("p"+strconv.Itoa(p)+".kind", 2)) == 0 {
			k := zz5Key(pr.keys[0], keyType)
			prs[p].id = k.KeyID // a bare key is its own principal
			principals = append(principals, k)
			continue
		}
		person := &tufv02.Person{PersonID: pr.id, PublicKeys: map[string]*tufv02.Key{}}
		for _, ki := range pr.keys {
			person.PublicKeys[zz5KeyIDs[ki]] = zz5Key(ki, keyType)
		}
		principals = append(principals, person)
	}

	threshold := verif.IntRange("threshold", -1, 5)

	// the Git object and who signed it
	store := zzmem.New(5)
	store.SigFunc = func(payload []byte, signer int) []byte {
		return zzsig.Make(verif.PickStr(signer, zz5KeyIDs...), payload)
	}
	var gitObjectID githash.Hash
	gitSigner := -2 // -2: no git object; -1: unsigned
	if verif.Bool("withgitobject") {
		if verif.Bool("gitsigned") {
			gitSigner = verif.Choice("gitsigner", len(zz5KeyIDs))
		} else {
			gitSigner = zzmem.Unsigned
		}
		gitObjectID = store.RawCommit("", store.RawEmptyTree(), nil, "the object", gitSigner)
	}

	// the envelope: up to maxS signature slots
	payload := []byte("payload-A")
	other := []byte("payload-B")
	payloadType := "application/vnd.gittuf+json"
	var env *sslibdsse.Envelope
	type slot struct {
		key   int  // symbolic index into zz5KeyIDs
		valid bool // made over this payload (else lifted from another payload)
	}
	var slots []slot
	if verif.Bool("withenvelope") {
		env = &sslibdsse.Envelope{PayloadType: payloadType, Payload: base64.StdEncoding.EncodeToString(payload), Signatures: []sslibdsse.Signature{}}
		ns := verif.Concrete(verif.IntRange("nslots", 0, verif.Bound("slots", 3, 3)))
		for s := 0; s < ns; s++ {
			sl := slot{key: verif.Choice("s"+strconv.Itoa(s)+".key", len(zz5KeyIDs)), valid: verif.Bool("s" + strconv.Itoa(s) + ".valid")}
			slots = append(slots, sl)
			keyID := verif.PickStr(sl.key, zz5KeyIDs...)
			good := string(zzsig.Make(keyID, sslibdsse.PAE(payloadType, payload)))
			bad := string(zzsig.Make(keyID, sslibdsse.PAE(payloadType, other)))
			sig := verif.PickStr(verif.B2I(sl.valid), bad, good)
			env.Signatures = append(env.Signatures, sslibdsse.Signature{KeyID: keyID, Sig: base64.StdEncoding.EncodeToString([]byte(sig))})
		}
	}
	_ = dsse.PayloadType

	verifier := &SignatureVerifier{repository: store, name: "rule", principals: principals, threshold: threshold}
	got, err := verifier.Verify(ctx, gitObjectID, env)

	// ---- reference definitions over the symbolic bits --------------------
	envValid := func(k int) bool { // some slot carries a valid signature by key k
		r := false
		for _, sl := range slots {
			r = verif.Or(r, verif.And(sl.key == k, sl.valid))
		}
		return r
	}
	gitValid := func(k int) bool { return verif.And(gitSigner >= 0, gitSigner == k) }

	if threshold < 1 || len(principals) == 0 {
		verif.Assert(err != nil, "degenerate-rule-never-satisfied")
		verif.Reach("degenerate")
		return
	}

	// (sound) the largest set of principals that can each be credited with a
	// different key carrying a valid signature, at most one of them through
	// the Git object's own signature
	best := zz5BestAssignment(prs, envValid, gitValid)
	if err == nil {
		verif.Reach("satisfied")
		verif.Assert(best >= threshold, "satisfied-implies-enough-distinct-principals-with-distinct-keys")
		// every returned principal is trusted by the rule and has a valid signature
		for _, id := range got.Contents() {
			known := false
			for _, pr := range prs {
				if pr.id == id {
					known = true
					has := false
					for _, k := range pr.keys {
						has = verif.Or(has, verif.Or(envValid(k), gitValid(k)))
					}
					verif.Assert(has, "credited-principal-has-a-valid-signature")
				}
			}
			verif.Assert(known, "credited-principal-is-trusted-by-the-rule")
		}
	} else {
		verif.Reach("unsatisfied")
	}

	// (exact) without shared keys: satisfied iff enough principals signed
	if !shared {
		count := 0
		for _, pr := range prs {
			has := false
			for _, k := range pr.keys {
				has = verif.Or(has, verif.Or(envValid(k), gitValid(k)))
			}
			count += verif.B2I(has)
		}
		verif.Assert((err == nil) == (count >= threshold), "no-shared-keys:satisfied-iff-enough-signed")
	}
}

// zz5BestAssignment returns (as a term) the size of the largest assignment
// principal -> (key, source) with pairwise distinct keys, valid signatures and
// at most one Git-signature credit.
func zz5BestAssignment(prs []zz5Principal, envValid, gitValid func(int) bool) int {
	type choice struct {
		key int // -1 none
		git bool
	}
	var options [][]choice
	for _, pr := range prs {
		opts := []choice{{key: -1}}
		for _, k := range pr.keys {
			opts = append(opts, choice{key: k}, choice{key: k, git: true})
		}
		options = append(options, opts)
	}
	best := 0
	var rec func(p int, used []int, gitUsed bool, ok bool, size int)
	rec = func(p int, used []int, gitUsed bool, ok bool, size int) {
		if p == len(prs) {
			best = verif.Ite(verif.And(ok, size > best), size, best)
			return
		}
		for _, c := range options[p] {
			if c.key < 0 {
				rec(p+1, used, gitUsed, ok, size)
				continue
			}
			dup := false
			for _, u := range used {
				if u == c.key {
					dup = true
				}
			}
			if dup || (c.git && gitUsed) {
				continue
			}
			var v bool
			if c.git {
				v = gitValid(c.key)
			} else {
				v = envValid(c.key)
			}
			rec(p+1, append(append([]int{}, used...), c.key), gitUsed || c.git, verif.And(ok, v), size+1)
		}
	}
	rec(0, nil, false, true, 0)
	return best
}
