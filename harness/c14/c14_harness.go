package rsl

// C14 harnesses: RSL entry text and parsed form determine each other.

import (
	"github.com/gittuf/gittuf/pkg/githash"

	verif "github.com/gittuf/gittuf/internal/zzverif"
)

func zzHash(name string, n int, sym int) githash.Hash {
	h := make([]byte, n)
	for i := range h {
		h[i] = byte(i*7 + 1)
	}
	sb := verif.Bytes(name, sym)
	for i, b := range sb {
		h[(i*11)%n] = b
	}
	return githash.Hash(h)
}

var zzRefNames = []string{"refs/heads/main", "refs/gittuf/policy", "refs/heads/a:b", "refs/tags/v1 x", "r"}

// HarnessC14Smoke: reference entry round trip with a small symbolic number.
func HarnessC14Smoke() {
	e := &ReferenceEntry{
		RefName:  verif.OneOf("ref", zzRefNames...),
		TargetID: zzHash("target", 20, 2),
		Number:   uint64(verif.IntRange("number", 0, 12)),
	}
	text, err := e.createCommitMessage(true)
	verif.Assert(err == nil, "serialise-ok")
	id := zzHash("id", 20, 0)
	parsed, err := parseRSLEntryText(id, text)
	verif.Assert(err == nil, "parse-ok")
	if err != nil {
		return
	}
	p, ok := parsed.(*ReferenceEntry)
	verif.Assert(ok, "kind")
	if !ok {
		return
	}
	verif.Reach("parsed")
	verif.Assert(p.RefName == e.RefName, "refname")
	verif.Assert(p.TargetID.Equal(e.TargetID), "target")
	verif.Assert(p.Number == e.Number, "number")
	verif.Assert(p.ID.Equal(id), "id")
}
