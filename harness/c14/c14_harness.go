package rsl

// C14 harnesses: RSL entry text and parsed form determine each other.
//
// Entry points (each run symbolically by gosym and natively for replay):
//   HarnessC14RoundTripReference / Annotation / Propagation
//   HarnessC14ParserReference / Annotation / Propagation  (structured texts)
//   HarnessC14Header                                      (header / blank line)

import (
	"encoding/pem"
	"strconv"
	"strings"

	"github.com/gittuf/gittuf/pkg/githash"

	verif "github.com/gittuf/gittuf/internal/zzverif"
)

// zzHash returns an n-byte id whose bytes at `sym` spread positions are
// symbolic.
func zzHash(name string, n int, sym int) githash.Hash {
	h := make([]byte, n)
	for i := range h {
		h[i] = byte(i*7 + 1)
	}
	sb := verif.Bytes(name, sym)
	for i, b := range sb {
		h[(i*11+3)%n] = b
	}
	return githash.Hash(h)
}

func zzHashLen(name string) int {
	if verif.Bool(name + ".sha256") {
		return 32
	}
	return 20
}

var zzNumbers = []uint64{0, 1, 9, 10, 99, 100, 4294967296, 9223372036854775808, 18446744073709551615}

var zzNumbersQuick = []uint64{0, 1, 10, 18446744073709551615}

func zzNumber(name string) uint64 {
	if verif.Tier() != "thorough" {
		return verif.OneOf(name+".boundary", zzNumbersQuick...)
	}
	if verif.Bool(name + ".small") {
		return uint64(verif.IntRange(name+".v", 0, 11))
	}
	return verif.OneOf(name+".boundary", zzNumbers...)
}

// zzValidRefByte: bytes git-check-ref-format allows inside a component
// (no ASCII control, space, DEL, and none of ~ ^ : ? * [ \).
func zzValidRefByte(b byte) bool {
	if b < 0x21 || b == 0x7f {
		return false
	}
	switch b {
	case '~', '^', ':', '?', '*', '[', '\\', '/', '.', '@', '{':
		return false
	}
	return true
}

func zzRefName(name string) string {
	switch verif.Choice(name+".shape", 5) {
	case 0:
		return "refs/heads/main"
	case 1:
		return "refs/gittuf/policy-staging"
	case 2:
		return "refs/tags/v1.0-rc+1"
	case 3:
		return "r"
	default:
		// a branch name ending in two arbitrary valid bytes
		b := verif.Bytes(name+".tail", 2)
		verif.Assume(zzValidRefByte(b[0]))
		verif.Assume(zzValidRefByte(b[1]))
		return "refs/heads/x" + string(b)
	}
}

// ---------------------------------------------------------------------------
// round trips

func HarnessC14RoundTripReference() {
	e := &ReferenceEntry{
		RefName:  zzRefName("ref"),
		TargetID: zzHash("target", zzHashLen("target"), 2),
		Number:   zzNumber("number"),
	}
	text, err := e.createCommitMessage(true)
	verif.Assert(err == nil, "serialise-ok")
	id := zzHash("id", 20, 0)
	parsed, err := parseRSLEntryText(id, text)
	verif.Assert(err == nil, "parse-ok")
	if err != nil {
		return
	}
	p, ok := parsed.(*ReferenceEntry)
	verif.Assert(ok, "kind")
	if !ok {
		return
	}
	verif.Reach("parsed")
	verif.Assert(p.RefName == e.RefName, "refname")
	verif.Assert(p.TargetID.Equal(e.TargetID), "target")
	verif.Assert(p.Number == e.Number, "number")
	verif.Assert(p.ID.Equal(id), "id")
}

var zzMessages = []string{
	"",
	"revoked: bad push",
	"line one\r\nline two\n",
	"-----BEGIN MESSAGE-----\nZm9v\n-----END MESSAGE-----",
	"skip: false\nnumber: 7\nentryID: 0102030405060708090a0b0c0d0e0f1011121314",
	" \t padded \n",
}

func zzMessage(name string) string {
	nshapes := len(zzMessages)
	if verif.Bound("msgbytes", 0, 1) > 0 {
		nshapes++
	}
	k := verif.Concrete(verif.Choice(name+".shape", nshapes))
	if k < len(zzMessages) {
		return zzMessages[k]
	}
	n := verif.IntRange(name+".len", 1, verif.Bound("msgbytes", 0, 1))
	n = verif.Concrete(n)
	return verif.String(name+".bytes", n)
}

func HarnessC14RoundTripAnnotation() {
	n := verif.Concrete(verif.IntRange("nids", 1, verif.Bound("nids", 2, 3)))
	ids := make([]githash.Hash, n)
	for i := range ids {
		ids[i] = zzHash("entry"+strconv.Itoa(i), zzHashLen("entry"+strconv.Itoa(i)), 1)
	}
	a := &AnnotationEntry{
		RSLEntryIDs: ids,
		Skip:        verif.Bool("skip"),
		Message:     zzMessage("msg"),
		Number:      zzNumber("number"),
	}
	text, err := a.createCommitMessage(true)
	verif.Assert(err == nil, "serialise-ok")
	if err != nil {
		return
	}
	id := zzHash("id", 20, 0)
	parsed, err := parseRSLEntryText(id, text)
	verif.Assert(err == nil, "parse-ok")
	if err != nil {
		return
	}
	p, ok := parsed.(*AnnotationEntry)
	verif.Assert(ok, "kind")
	if !ok {
		return
	}
	verif.Reach("parsed")
	verif.Assert(len(p.RSLEntryIDs) == len(ids), "nids")
	if len(p.RSLEntryIDs) == len(ids) {
		for i := range ids {
			verif.Assert(p.RSLEntryIDs[i].Equal(ids[i]), "entryid")
		}
	}
	verif.Assert(p.Skip == a.Skip, "skip")
	verif.Assert(p.Message == a.Message, "message")
	verif.Assert(p.Number == a.Number, "number")
}

var zzUpstreams = []string{
	"https://example.com/org/repo",
	"git@example.com:org/repo.git",
	"ssh://host:2222/a:b",
	"/local/path",
	"u",
}

func HarnessC14RoundTripPropagation() {
	e := &PropagationEntry{
		RefName:            zzRefName("ref"),
		TargetID:           zzHash("target", zzHashLen("target"), 1),
		UpstreamRepository: verif.OneOf("upstream", zzUpstreams...),
		UpstreamEntryID:    zzHash("upentry", zzHashLen("upentry"), 1),
		Number:             zzNumber("number"),
	}
	text, err := e.createCommitMessage(true)
	verif.Assert(err == nil, "serialise-ok")
	id := zzHash("id", 20, 0)
	parsed, err := parseRSLEntryText(id, text)
	verif.Assert(err == nil, "parse-ok")
	if err != nil {
		return
	}
	p, ok := parsed.(*PropagationEntry)
	verif.Assert(ok, "kind")
	if !ok {
		return
	}
	verif.Reach("parsed")
	verif.Assert(p.RefName == e.RefName, "refname")
	verif.Assert(p.TargetID.Equal(e.TargetID), "target")
	verif.Assert(p.UpstreamRepository == e.UpstreamRepository, "upstream")
	verif.Assert(p.UpstreamEntryID.Equal(e.UpstreamEntryID), "upentry")
	verif.Assert(p.Number == e.Number, "number")
}

// ---------------------------------------------------------------------------
// parser soundness on structured texts

const (
	zzKindRef = iota
	zzKindAnn
	zzKindProp
)

// zzSpec is the reference result of parsing.
type zzSpec struct {
	ok       bool
	ref      string
	target   string // hex
	ids      []string
	skip     bool
	message  string
	upstream string
	upentry  string
	number   uint64
}

func zzSpecHash(v string) bool {
	if len(v) != 40 && len(v) != 64 {
		return false
	}
	for i := 0; i < len(v); i++ {
		c := v[i]
		if !(c >= '0' && c <= '9' || c >= 'a' && c <= 'f' || c >= 'A' && c <= 'F') {
			return false
		}
	}
	return true
}

func zzSpecNumber(v string) (uint64, bool) {
	n, err := strconv.ParseUint(v, 10, 64)
	return n, err == nil
}

// zzSpecParse is the reference definition of the entry grammar: header line,
// blank line, then "key: value" lines whose known keys must appear in the
// fixed order of the entry kind, each at most once (entryID: one or more),
// number optional and last; unknown keys are ignored; a line without ':' is
// an error; for annotations everything from the message begin marker on is
// the PEM block.
func zzSpecParse(kind int, text string) zzSpec {
	var res zzSpec
	header := [...]string{ReferenceEntryHeader, AnnotationEntryHeader, PropagationEntryHeader}[kind]
	lines := strings.Split(text, "\n")
	if len(lines) < 2 || lines[0] != header || strings.TrimSpace(lines[1]) != "" {
		return res
	}
	// keys and values are trimmed of ASCII whitespace only: reference names
	// and upstream locations may begin or end with non-ASCII space characters
	trim := func(s string) string { return strings.Trim(s, " \t\r\n\v\f") }
	var order []string
	switch kind {
	case zzKindRef:
		order = []string{RefKey, TargetIDKey, NumberKey}
	case zzKindAnn:
		order = []string{EntryIDKey, SkipKey, NumberKey}
	default:
		order = []string{RefKey, TargetIDKey, UpstreamRepositoryKey, UpstreamEntryIDKey, NumberKey}
	}
	pos := 0 // index in order of the next expected key
	for _, line := range lines[2:] {
		line = trim(line)
		if kind == zzKindAnn && line == BeginMessage {
			break
		}
		key, value, found := strings.Cut(line, ":")
		if !found {
			return res
		}
		key, value = trim(key), trim(value)
		at := -1
		for i, k := range order {
			if k == key {
				at = i
			}
		}
		if at < 0 {
			continue // unknown key
		}
		switch {
		case kind == zzKindAnn && key == EntryIDKey:
			if pos != 0 {
				return res // entryIDs only before skip
			}
		case kind == zzKindAnn && key == SkipKey:
			if pos != 0 || len(res.ids) == 0 {
				return res
			}
			pos = 2
		default:
			if at != pos {
				return res // out of order, repeated, or a mandatory key skipped
			}
			pos = at + 1
		}
		switch key {
		case RefKey:
			res.ref = value
		case TargetIDKey:
			if !zzSpecHash(value) {
				return res
			}
			res.target = strings.ToLower(value)
		case EntryIDKey:
			if !zzSpecHash(value) {
				return res
			}
			res.ids = append(res.ids, strings.ToLower(value))
		case SkipKey:
			switch value {
			case "true":
				res.skip = true
			case "false":
				res.skip = false
			default:
				return res
			}
		case UpstreamRepositoryKey:
			res.upstream = value
		case UpstreamEntryIDKey:
			if !zzSpecHash(value) {
				return res
			}
			res.upentry = strings.ToLower(value)
		case NumberKey:
			n, ok := zzSpecNumber(value)
			if !ok {
				return res
			}
			res.number = n
		}
	}
	// all mandatory keys seen?
	mandatory := len(order) - 1
	if pos < mandatory {
		return res
	}
	if kind == zzKindAnn && strings.Contains(text, BeginMessage) {
		if blk, _ := pem.Decode([]byte(text)); blk != nil {
			res.message = string(blk.Bytes)
		}
	}
	res.ok = true
	return res
}

// zzLine builds body line number i from a menu; values may carry symbolic
// bytes so that hash/number validation and trimming are decided by the solver.
func zzLine(kind int, i int) string {
	p := "l" + strconv.Itoa(i)
	switch verif.Choice(p+".what", 12) {
	case 0:
		return RefKey + ": " + verif.OneOf(p+".ref", "refs/heads/main", "refs/gittuf/policy", "a:b")
	case 1:
		// 40 hex chars, one of them arbitrary
		h := []byte("0102030405060708090a0b0c0d0e0f1011121314")
		h[verif.OneOf(p+".hpos", 0, 17, 39)] = verif.Uint8(p + ".hbyte")
		return TargetIDKey + ": " + string(h)
	case 2:
		return NumberKey + ": " + verif.String(p+".num", verif.Concrete(verif.IntRange(p+".numlen", 1, 2)))
	case 3:
		h := []byte("1112131415161718191a1b1c1d1e1f2021222324")
		h[verif.OneOf(p+".hpos", 0, 39)] = verif.Uint8(p + ".hbyte")
		return EntryIDKey + ": " + string(h)
	case 4:
		return SkipKey + ": " + verif.OneOf(p+".skip", "true", "false", "True", "")
	case 5:
		return UpstreamRepositoryKey + ": " + verif.OneOf(p+".up", "https://example.com/r", "host:path")
	case 6:
		return UpstreamEntryIDKey + ": 2122232425262728292a2b2c2d2e2f3031323334"
	case 7:
		return "future-key: value"
	case 8:
		return "no colon here"
	case 9:
		return BeginMessage
	case 10:
		return ""
	default:
		// a known key with stray whitespace around key and value
		return " \t" + verif.OneOf(p+".padkey", RefKey, NumberKey, SkipKey) + " :  7 "
	}
}

func zzHex(h githash.Hash) string { return h.String() }

func zzParserHarness(kind int) {
	header := [...]string{ReferenceEntryHeader, AnnotationEntryHeader, PropagationEntryHeader}[kind]
	n := verif.Concrete(verif.IntRange("nlines", 0, verif.Bound("lines", 2, 3)))
	lines := []string{header, ""}
	if kind == zzKindProp {
		// the first two (of four) mandatory fields are given, so that
		// acceptance is reachable within the line bound
		lines = append(lines, RefKey+": refs/heads/main", TargetIDKey+": 0102030405060708090a0b0c0d0e0f1011121314")
	}
	for i := 0; i < n; i++ {
		lines = append(lines, zzLine(kind, i))
	}
	text := strings.Join(lines, "\n")
	zzCompareWithSpec(kind, text)
}

// zzCompareWithSpec parses text with the real parser and with the reference
// grammar and asserts agreement, then the canonical-text fixpoint.
func zzCompareWithSpec(kind int, text string) {
	id := zzHash("id", 20, 0)

	entry, err := parseRSLEntryText(id, text)
	spec := zzSpecParse(kind, text)
	verif.Assert((err == nil) == spec.ok, "accept-iff-spec")
	if err != nil || !spec.ok {
		verif.Reach("rejected")
		return
	}
	verif.Reach("accepted")
	var canonical string
	switch kind {
	case zzKindRef:
		e, ok := entry.(*ReferenceEntry)
		verif.Assert(ok, "kind")
		if !ok {
			return
		}
		verif.Assert(e.RefName == spec.ref, "ref=spec")
		verif.Assert(zzHex(e.TargetID) == spec.target, "target=spec")
		verif.Assert(e.Number == spec.number, "number=spec")
		canonical, _ = e.createCommitMessage(true)
		again, err2 := parseRSLEntryText(id, canonical)
		verif.Assert(err2 == nil, "canonical-parses")
		if err2 == nil {
			e2 := again.(*ReferenceEntry)
			verif.Assert(e2.RefName == e.RefName && e2.TargetID.Equal(e.TargetID) && e2.Number == e.Number, "canonical-same")
		}
	case zzKindAnn:
		a, ok := entry.(*AnnotationEntry)
		verif.Assert(ok, "kind")
		if !ok {
			return
		}
		verif.Assert(len(a.RSLEntryIDs) == len(spec.ids), "nids=spec")
		if len(a.RSLEntryIDs) == len(spec.ids) {
			for i := range spec.ids {
				verif.Assert(zzHex(a.RSLEntryIDs[i]) == spec.ids[i], "entryid=spec")
			}
		}
		verif.Assert(a.Skip == spec.skip, "skip=spec")
		verif.Assert(a.Number == spec.number, "number=spec")
		verif.Assert(a.Message == spec.message, "message=spec")
		canonical, _ = a.createCommitMessage(true)
		again, err2 := parseRSLEntryText(id, canonical)
		verif.Assert(err2 == nil, "canonical-parses")
		if err2 == nil {
			a2 := again.(*AnnotationEntry)
			same := a2.Skip == a.Skip && a2.Number == a.Number && a2.Message == a.Message && len(a2.RSLEntryIDs) == len(a.RSLEntryIDs)
			if same {
				for i := range a.RSLEntryIDs {
					same = same && a2.RSLEntryIDs[i].Equal(a.RSLEntryIDs[i])
				}
			}
			verif.Assert(same, "canonical-same")
		}
	default:
		e, ok := entry.(*PropagationEntry)
		verif.Assert(ok, "kind")
		if !ok {
			return
		}
		verif.Assert(e.RefName == spec.ref, "ref=spec")
		verif.Assert(zzHex(e.TargetID) == spec.target, "target=spec")
		verif.Assert(e.UpstreamRepository == spec.upstream, "upstream=spec")
		verif.Assert(zzHex(e.UpstreamEntryID) == spec.upentry, "upentry=spec")
		verif.Assert(e.Number == spec.number, "number=spec")
		canonical, _ = e.createCommitMessage(true)
		again, err2 := parseRSLEntryText(id, canonical)
		verif.Assert(err2 == nil, "canonical-parses")
		if err2 == nil {
			e2 := again.(*PropagationEntry)
			verif.Assert(e2.RefName == e.RefName && e2.TargetID.Equal(e.TargetID) && e2.UpstreamRepository == e.UpstreamRepository &&
				e2.UpstreamEntryID.Equal(e.UpstreamEntryID) && e2.Number == e.Number, "canonical-same")
		}
	}
}

// zzMutatedHarness: a valid, complete entry text with one structured
// mutation: a line from the menu inserted at any position, a line deleted,
// two adjacent lines swapped, or a line replaced by a menu line.
func zzMutatedHarness(kind int) {
	header := [...]string{ReferenceEntryHeader, AnnotationEntryHeader, PropagationEntryHeader}[kind]
	var body []string
	switch kind {
	case zzKindRef:
		body = []string{RefKey + ": refs/heads/main", TargetIDKey + ": 0102030405060708090a0b0c0d0e0f1011121314", NumberKey + ": 5"}
	case zzKindAnn:
		body = []string{EntryIDKey + ": 0102030405060708090a0b0c0d0e0f1011121314", EntryIDKey + ": 1112131415161718191a1b1c1d1e1f2021222324", SkipKey + ": true", NumberKey + ": 5",
			BeginMessage, "bXNn", EndMessage}
	default:
		body = []string{RefKey + ": refs/heads/main", TargetIDKey + ": 0102030405060708090a0b0c0d0e0f1011121314", UpstreamRepositoryKey + ": https://example.com/r",
			UpstreamEntryIDKey + ": 2122232425262728292a2b2c2d2e2f3031323334", NumberKey + ": 5"}
	}
	nfields := len(body)
	if kind == zzKindAnn {
		nfields = 4 // mutations are applied to the field lines, not inside the PEM block
	}
	var lines []string
	switch verif.Concrete(verif.Choice("mutation", 4)) {
	case 0: // insert
		at := verif.Concrete(verif.IntRange("at", 0, nfields))
		lines = append(lines, body[:at]...)
		lines = append(lines, zzLine(kind, 0))
		lines = append(lines, body[at:]...)
	case 1: // delete
		at := verif.Concrete(verif.IntRange("at", 0, nfields-1))
		lines = append(lines, body[:at]...)
		lines = append(lines, body[at+1:]...)
	case 2: // swap neighbours
		at := verif.Concrete(verif.IntRange("at", 0, nfields-2))
		lines = append(lines, body...)
		lines[at], lines[at+1] = lines[at+1], lines[at]
	default: // replace
		at := verif.Concrete(verif.IntRange("at", 0, nfields-1))
		lines = append(lines, body...)
		lines[at] = zzLine(kind, 0)
	}
	text := strings.Join(append([]string{header, ""}, lines...), "\n")
	zzCompareWithSpec(kind, text)
}

func HarnessC14MutatedReference()   { zzMutatedHarness(zzKindRef) }
func HarnessC14MutatedAnnotation()  { zzMutatedHarness(zzKindAnn) }
func HarnessC14MutatedPropagation() { zzMutatedHarness(zzKindProp) }

func HarnessC14ParserReference()   { zzParserHarness(zzKindRef) }
func HarnessC14ParserAnnotation()  { zzParserHarness(zzKindAnn) }
func HarnessC14ParserPropagation() { zzParserHarness(zzKindProp) }

// HarnessC14Header: header line and blank line variations in front of a valid
// body, plus short arbitrary byte strings (unstructured input).
func HarnessC14Header() {
	id := zzHash("id", 20, 0)
	var text string
	if verif.Bool("unstructured") {
		text = verif.String("raw", verif.Concrete(verif.IntRange("rawlen", 0, verif.Bound("rawlen", 3, 4))))
		_, err := parseRSLEntryText(id, text)
		verif.Assert(err != nil, "short-garbage-rejected")
		verif.Reach("garbage")
		return
	}
	kind := verif.Concrete(verif.Choice("kind", 3))
	header := [...]string{ReferenceEntryHeader, AnnotationEntryHeader, PropagationEntryHeader}[kind]
	body := [...]string{
		RefKey + ": refs/heads/main\n" + TargetIDKey + ": 0102030405060708090a0b0c0d0e0f1011121314",
		EntryIDKey + ": 0102030405060708090a0b0c0d0e0f1011121314\n" + SkipKey + ": true",
		RefKey + ": refs/heads/main\n" + TargetIDKey + ": 0102030405060708090a0b0c0d0e0f1011121314\n" + UpstreamRepositoryKey + ": u\n" + UpstreamEntryIDKey + ": 0102030405060708090a0b0c0d0e0f1011121314",
	}[kind]
	h := verif.OneOf("header", header, header+" ", " "+header, header+"X", strings.ToLower(header), "")
	sep := verif.OneOf("sep", "\n\n", "\n \t\n", "\n", "\nx\n", "\r\n\r\n", "\n"+verif.String("sepbyte", 1)+"\n")
	text = h + sep + body
	_, err := parseRSLEntryText(id, text)
	spec := zzSpecParse(kind, text)
	verif.Assert((err == nil) == spec.ok, "accept-iff-spec")
	if err == nil {
		verif.Reach("accepted")
	} else {
		verif.Reach("rejected")
	}
}
