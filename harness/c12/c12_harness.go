package policy

// C12 harness: the policy reference advances only to verified descendants
// that verification accepts.

import (
	"strconv"

	zzmem "github.com/gittuf/gittuf/internal/zzmem"
	verif "github.com/gittuf/gittuf/internal/zzverif"
	"github.com/gittuf/gittuf/pkg/githash"
	"github.com/gittuf/gittuf/pkg/rsl"
)

// zz12Staged describes what currently sits at the tip of policy-staging,
// relative to the applied policy.
type zz12Staged struct {
	present     bool
	spec        *zzPolicySpec
	rootSigners []int
	valid       bool // the staged state is a valid successor of the applied policy
}

func zz12LatestEntryTarget(w *zzWorld, ref string) githash.Hash {
	log, ok := zz16Log(w.S)
	if !ok {
		return nil
	}
	t := zz16LatestTarget(log, ref)
	if t == "" {
		return nil
	}
	h, _ := githash.NewHash(t)
	return h
}

func zz12Same(a, b githash.Hash) bool {
	if a == nil || b == nil {
		return a == nil && b == nil
	}
	return a.Equal(b)
}

func HarnessC12Apply() {
	w := zzNewWorld()
	// applied policy: two root keys, threshold 2
	p0 := zzBasePolicy([]int{0, 1}, nil)
	p0.rootKeys, p0.rootThreshold = []int{0, 1}, 2
	p0.rootVersion, p0.targetsVer = 3, 3
	zzMust(w.zzStageAndApply(p0, w.zzBuildState(p0, []int{0, 1}, []int{0}), 0))
	applied := p0
	version := uint64(3)
	staged := zz12Staged{present: true, spec: p0, valid: true} // staging still holds the applied state
	tampered := false // a reference was moved behind gittuf's back

	n := verif.Concrete(verif.IntRange("ops", 1, verif.Bound("ops", 2, 3)))
	for i := 0; i < n; i++ {
		p := "o" + strconv.Itoa(i)
		policyBefore := w.S.Ref(PolicyRef)
		logBefore, _ := zz16Log(w.S)
		switch verif.Concrete(verif.Choice(p+".op", 7)) {
		case 0, 1, 2, 3: // stage a successor state
			variant := verif.Concrete(verif.Choice(p+".variant", 5))
			spec := zzBasePolicy([]int{0, 1, 2}, nil)
			spec.rootKeys, spec.rootThreshold = []int{0, 1}, 2
			version++
			spec.rootVersion, spec.targetsVer = version, version
			signers := []int{0, 1}
			ok := true
			switch variant {
			case 1: // root signed by one root key and one non-root key: under threshold
				signers = []int{0, 2}
				ok = false
			case 2: // signed by a single root key: under threshold
				signers = []int{1}
				ok = false
			case 3: // version rollback
				spec.rootVersion = 1
				ok = false
			case 4: // a self-consistent root of somebody else: declares key2 only, signed by key2
				spec.rootKeys, spec.rootThreshold = []int{2}, 1
				signers = []int{2}
				ok = false
			}
			w.S.Signer = 0
			zzMust(w.zzBuildState(spec, signers, []int{0}).Commit(w.S, "stage", true, true))
			staged = zz12Staged{present: true, spec: spec, rootSigners: signers, valid: ok}
		case 4: // apply
			err := Apply(w.ctx, w.S, true)
			policyAfter := w.S.Ref(PolicyRef)
			logAfter, okLog := zz16Log(w.S)
			verif.Assert(okLog, "log-valid-after-apply")
			if err == nil {
				verif.Reach("applied")
				verif.Assert(!tampered, "apply-refuses-when-a-reference-disagrees-with-its-log-entry")
				verif.Assert(staged.present && staged.valid, "apply-publishes-only-valid-staged-states")
				verif.Assert(zz12Same(policyAfter, w.S.Ref(PolicyStagingRef)), "policy-equals-staged-tip")
				verif.Assert(policyBefore == nil || w.S.IsAncestor(policyAfter, policyBefore), "new-policy-descends-from-old")
				verif.Assert(len(logAfter) == len(logBefore)+1 && logAfter[len(logAfter)-1].ref == PolicyRef && logAfter[len(logAfter)-1].target == policyAfter.String(), "apply-records-its-own-log-entry")
				if staged.present {
					applied = staged.spec
				}
				// every published state is accepted by later verification
				_, lerr := LoadCurrentState(w.ctx, w.S, PolicyRef)
				verif.Assert(lerr == nil, "published-state-loads")
				staged = zz12Staged{present: true, spec: applied, valid: true}
			} else {
				verif.Reach("apply-refused")
				verif.Assert(zz12Same(policyAfter, policyBefore), "refused-apply-leaves-policy-ref")
				// completeness: a valid, consistent staging is applied (re-applying
				// an already applied state is also fine)
				verif.Assert(tampered || !(staged.present && staged.valid), "valid-consistent-staging-is-applied")
			}
		case 5: // discard
			err := Discard(w.S)
			verif.Assert(err == nil, "discard-ok")
			verif.Assert(zz12Same(w.S.Ref(PolicyStagingRef), w.S.Ref(PolicyRef)), "discard-restores-staging-to-policy")
			verif.Assert(zz12Same(w.S.Ref(PolicyRef), policyBefore), "discard-leaves-policy-ref")
			staged = zz12Staged{present: true, spec: applied, valid: true} // staging holds the applied state again
			// discarding moves the staging ref without a log entry: it now
			// disagrees with its latest entry unless it was in step already
			if !zz12Same(w.S.Ref(PolicyStagingRef), zz12LatestEntryTarget(w, PolicyStagingRef)) {
				tampered = true
			}
			verif.Reach("discarded")
		default: // tamper: move the policy ref to the staged tip behind gittuf's back
			if tip := w.S.Ref(PolicyStagingRef); tip != nil && !zz12Same(tip, policyBefore) {
				w.S.SetRef(PolicyRef, tip)
				tampered = true
				verif.Reach("tampered")
			}
		}
		if !tampered {
			// the policy ref only ever equals the target of its latest log entry
			verif.Assert(zz12Same(w.S.Ref(PolicyRef), zz12LatestEntryTarget(w, PolicyRef)), "policy-ref-in-step-with-log")
		}
	}
	_ = zzmem.Unsigned
	_ = rsl.Ref
}
