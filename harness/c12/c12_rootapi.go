package gittuf

// C12 (API half): root-of-trust changes made through the experimental/gittuf
// API are refused for signers who are not root principals of the state being
// edited, and every policy state that Apply publishes is accepted by
// subsequent verification.

import (
	"context"
	"crypto"
	"encoding/base64"
	"strconv"

	trustpolicyopts "github.com/gittuf/gittuf/experimental/gittuf/options/trustpolicy"
	"github.com/gittuf/gittuf/internal/policy"
	"github.com/gittuf/gittuf/internal/signerverifier/dsse"
	"github.com/gittuf/gittuf/internal/tuf"
	sslibdsse "github.com/gittuf/gittuf/internal/third_party/go-securesystemslib/dsse"
	tufv01 "github.com/gittuf/gittuf/internal/tuf/v01"
	tufv02 "github.com/gittuf/gittuf/internal/tuf/v02"
	zzmem "github.com/gittuf/gittuf/internal/zzmem"
	"github.com/gittuf/gittuf/internal/zzsig"
	verif "github.com/gittuf/gittuf/internal/zzverif"
	"github.com/gittuf/gittuf/pkg/gitinterface"
)

var zz12KeyIDs = []string{"key0", "key1", "key2", "key3"}

func zz12Key(i int) *tufv01.Key {
	k := &tufv01.Key{}
	k.KeyID = zz12KeyIDs[i]
	k.KeyType = "ssh"
	k.Scheme = "ssh"
	k.KeyVal.Public = "public material of " + zz12KeyIDs[i]
	return k
}

// zz12Signer is a model signer for key i (signatures in the cryptomodel's format).
type zz12Signer struct{ i int }

func (s *zz12Signer) Sign(_ context.Context, data []byte) ([]byte, error) {
	return zzsig.Make(zz12KeyIDs[s.i], data), nil
}
func (s *zz12Signer) Verify(_ context.Context, data, sig []byte) error { return nil }
func (s *zz12Signer) KeyID() (string, error)                           { return zz12KeyIDs[s.i], nil }
func (s *zz12Signer) Public() crypto.PublicKey                         { return nil }

func zz12Sign(env *sslibdsse.Envelope, signers ...int) {
	payload, err := env.DecodeB64Payload()
	if err != nil {
		panic(err)
	}
	pae := sslibdsse.PAE(env.PayloadType, payload)
	for _, s := range signers {
		env.Signatures = append(env.Signatures, sslibdsse.Signature{KeyID: zz12KeyIDs[s], Sig: base64.StdEncoding.EncodeToString(zzsig.Make(zz12KeyIDs[s], pae))})
	}
}

func HarnessC12RootAPI() {
	ctx := context.Background()
	store := zzmem.New(5)
	store.SigFunc = func(payload []byte, signer int) []byte { return zzsig.Make(zz12KeyIDs[signer], payload) }
	repoModel := gitinterface.ZZNewModelRepo(store)
	repo := &Repository{r: repoModel}

	// initial policy: root principals key0,key1 with threshold 1 or 2, rule file by key0
	t0 := verif.Concrete(verif.IntRange("root.threshold", 1, 2))
	root := tufv02.NewRootMetadata()
	zz15Must(root.AddRootPrincipal(zz12Key(0)))
	zz15Must(root.AddRootPrincipal(zz12Key(1)))
	if t0 == 2 {
		zz15Must(root.UpdateRootThreshold(2))
	}
	zz15Must(root.AddPrimaryRuleFilePrincipal(zz12Key(0)))
	rootEnv, err := dsse.CreateEnvelope(root)
	zz15Must(err)
	zz12Sign(rootEnv, 0, 1)
	targets := tufv02.NewTargetsMetadata()
	tEnv, err := dsse.CreateEnvelope(targets)
	zz15Must(err)
	zz12Sign(tEnv, 0)
	state := &policy.State{Metadata: &policy.StateMetadata{RootEnvelope: rootEnv, TargetsEnvelope: tEnv}}
	zz15Must(state.Commit(repoModel, "initial policy", true, false))
	zz15Must(policy.Apply(ctx, repoModel, false))

	// abstract view of the staged root: its principals
	isRoot := []bool{true, true, false, false}
	nroot := 2
	threshold := t0

	nops := verif.Concrete(verif.IntRange("nops", 1, verif.Bound("ops", 2, 3)))
	for i := 0; i < nops; i++ {
		p := "o" + strconv.Itoa(i)
		k := verif.Concrete(verif.Choice(p+".signer", 3)) // key0, key1 (root principals at first), key2 (not one at first)
		signer := &zz12Signer{k}
		before := store.Ref(policy.PolicyStagingRef)
		authorised := isRoot[k]
		var err error
		op := verif.Concrete(verif.Choice(p+".op", 8))
		switch op {
		case 0:
			err = repo.AddRootKey(ctx, signer, zz12Key(2), false, trustpolicyopts.WithRSLEntry())
			if err == nil {
				if !isRoot[2] {
					nroot++
				}
				isRoot[2] = true
			}
		case 1:
			err = repo.RemoveRootKey(ctx, signer, zz12KeyIDs[1], false, trustpolicyopts.WithRSLEntry())
			if err == nil {
				if isRoot[1] {
					nroot--
				}
				isRoot[1] = false
			}
		case 2:
			t := verif.Concrete(verif.IntRange(p+".threshold", 1, 2))
			err = repo.UpdateRootThreshold(ctx, signer, t, false, trustpolicyopts.WithRSLEntry())
			if err == nil {
				threshold = t
			}
		case 3:
			err = repo.AddTopLevelTargetsKey(ctx, signer, zz12Key(2), false, trustpolicyopts.WithRSLEntry())
		case 4:
			err = repo.SignRoot(ctx, signer, false, trustpolicyopts.WithRSLEntry())
		case 6:
			// rule-file API (the API does not check the signer here; Apply must
			// still refuse a rule file signed by a key the root does not name)
			err = repo.AddPrincipalToTargets(ctx, signer, policy.TargetsRoleName, []tuf.Principal{zz12Key(1)}, false, trustpolicyopts.WithRSLEntry())
			authorised = true
		case 7:
			err = repo.AddDelegation(ctx, signer, policy.TargetsRoleName, "rule"+strconv.Itoa(i), []string{zz12KeyIDs[1]}, []string{"git:refs/heads/main"}, 1, false, trustpolicyopts.WithRSLEntry())
			authorised = true
		default:
			err = repo.AddGlobalRuleThreshold(ctx, signer, "g"+strconv.Itoa(i), []string{"git:refs/heads/main"}, 2, false, trustpolicyopts.WithRSLEntry())
		}
		after := store.Ref(policy.PolicyStagingRef)
		if op == 4 {
			// SignRoot only adds the signer's signature to the envelope; it
			// does not edit the root of trust, and a signature by a key that
			// is not a root principal is counted by no verifier.  It is not
			// treated as a root-of-trust change (gittuf accepts it from anyone).
			authorised = true
		}
		if !authorised {
			verif.Reach("unauthorised-signer")
			verif.Assert(err != nil, "change-by-a-signer-who-is-not-a-root-principal-is-refused["+strconv.Itoa(op)+"]")
			verif.Assert(after.Equal(before), "refused-change-leaves-staging-alone")
		} else if err == nil {
			verif.Reach("authorised-change")
		}
		if err != nil {
			verif.Assert(after.Equal(before), "failed-change-leaves-staging-alone")
		}
	}
	_ = nroot
	_ = threshold

	// apply what was staged; whatever Apply publishes must load (be verifiable) afterwards
	policyBefore := store.Ref(policy.PolicyRef)
	aerr := policy.Apply(ctx, repoModel, false)
	if aerr == nil && !store.Ref(policy.PolicyRef).Equal(policyBefore) {
		verif.Reach("published")
		_, lerr := policy.LoadCurrentState(ctx, repoModel, policy.PolicyRef)
		if lerr != nil {
			verif.Observe("load-error", lerr.Error())
		}
		verif.Assert(lerr == nil, "every-published-state-is-accepted-by-later-verification")
	} else if aerr != nil {
		verif.Reach("apply-refused")
		verif.Assert(store.Ref(policy.PolicyRef).Equal(policyBefore), "refused-apply-leaves-the-policy-ref")
	}
}
